//! C04: line-number rows equal the DWARF state machine; sequences consistent;
//! any-input monotonicity.
use crate::model::*;
use gimli::{AttributeValue, DebugLine, DebugLineOffset, EndianSlice, LineInstruction, RunTimeEndian};
use mcx::enc::Enc;
use mcx::space::{seq_count, seq_decode, Mix};
use mcx::{guard, CheckDef, Ctx, Sub, Tier};

type R<'a> = EndianSlice<'a, RunTimeEndian>;

fn endian(big: bool) -> RunTimeEndian {
    if big {
        RunTimeEndian::Big
    } else {
        RunTimeEndian::Little
    }
}

fn grow(r: &gimli::LineRow) -> Row {
    Row {
        address: r.address(),
        op_index: r.op_index(),
        file: r.file_index(),
        line: r.line().map(|l| l.get()).unwrap_or(0),
        column: match r.column() {
            gimli::ColumnType::LeftEdge => 0,
            gimli::ColumnType::Column(c) => c.get(),
        },
        is_stmt: r.is_stmt(),
        basic_block: r.basic_block(),
        end_sequence: r.end_sequence(),
        prologue_end: r.prologue_end(),
        epilogue_begin: r.epilogue_begin(),
        isa: r.isa(),
        discriminator: r.discriminator(),
    }
}

/// First differing register of two rows.
fn row_diff(g: &Row, m: &Row) -> Option<&'static str> {
    if g.address != m.address {
        Some("address")
    } else if g.op_index != m.op_index {
        Some("op_index")
    } else if g.file != m.file {
        Some("file")
    } else if g.line != m.line {
        Some("line")
    } else if g.column != m.column {
        Some("column")
    } else if g.is_stmt != m.is_stmt {
        Some("is_stmt")
    } else if g.basic_block != m.basic_block {
        Some("basic_block")
    } else if g.end_sequence != m.end_sequence {
        Some("end_sequence")
    } else if g.prologue_end != m.prologue_end {
        Some("prologue_end")
    } else if g.epilogue_begin != m.epilogue_begin {
        Some("epilogue_begin")
    } else if g.isa != m.isa {
        Some("isa")
    } else if g.discriminator != m.discriminator {
        Some("discriminator")
    } else {
        None
    }
}

fn attr_bytes<'a>(a: &AttributeValue<R<'a>>) -> Option<&'a [u8]> {
    match a {
        AttributeValue::String(r) => Some(r.slice()),
        _ => None,
    }
}

fn gins(i: &LineInstruction<R>) -> Ins {
    match i {
        LineInstruction::Special(b) => Ins::Special(*b),
        LineInstruction::Copy => Ins::Copy,
        LineInstruction::AdvancePc(v) => Ins::AdvancePc(*v),
        LineInstruction::AdvanceLine(v) => Ins::AdvanceLine(*v),
        LineInstruction::SetFile(v) => Ins::SetFile(*v),
        LineInstruction::SetColumn(v) => Ins::SetColumn(*v),
        LineInstruction::NegateStatement => Ins::NegateStmt,
        LineInstruction::SetBasicBlock => Ins::SetBasicBlock,
        LineInstruction::ConstAddPc => Ins::ConstAddPc,
        LineInstruction::FixedAddPc(v) => Ins::FixedAdvancePc(*v),
        LineInstruction::SetPrologueEnd => Ins::SetPrologueEnd,
        LineInstruction::SetEpilogueBegin => Ins::SetEpilogueBegin,
        LineInstruction::SetIsa(v) => Ins::SetIsa(*v),
        LineInstruction::UnknownStandard0(op) => Ins::UnknownStd { op: op.0, nargs: 0, raw: vec![], first: 0 },
        LineInstruction::UnknownStandard1(op, v) => {
            let mut raw = vec![];
            mcx::leb::enc_uleb(*v, &mut raw);
            Ins::UnknownStd { op: op.0, nargs: 1, raw, first: *v }
        }
        LineInstruction::UnknownStandardN(op, r) => {
            // nargs is not observable; filled in by the comparison
            let first = match mcx::leb::uleb(r.slice()) {
                mcx::leb::Dec::Ok(v, _) => v as u64,
                _ => 0,
            };
            Ins::UnknownStd { op: op.0, nargs: 0xff, raw: r.slice().to_vec(), first }
        }
        LineInstruction::EndSequence => Ins::EndSequence { surplus: 0 },
        LineInstruction::SetAddress(a) => Ins::SetAddress { addr: *a, surplus: 0 },
        LineInstruction::DefineFile(f) => Ins::DefineFile {
            f: FileV4 { name: attr_bytes(&f.path_name()).unwrap_or(b"<non-string>").to_vec(), dir: f.directory_index(), mtime: f.timestamp(), len: f.size() },
            surplus: 0,
        },
        LineInstruction::SetDiscriminator(v) => Ins::SetDiscriminator { v: *v, surplus: 0 },
        LineInstruction::UnknownExtended(op, r) => Ins::UnknownExt { op: op.0, payload: r.slice().to_vec() },
    }
}

/// The model instruction as far as gimli's `LineInstruction` can show it.
fn observable(i: &Ins) -> Ins {
    match i {
        Ins::EndSequence { .. } => Ins::EndSequence { surplus: 0 },
        Ins::SetAddress { addr, .. } => Ins::SetAddress { addr: *addr, surplus: 0 },
        Ins::DefineFile { f, .. } => Ins::DefineFile { f: f.clone(), surplus: 0 },
        Ins::SetDiscriminator { v, .. } => Ins::SetDiscriminator { v: *v, surplus: 0 },
        Ins::UnknownStd { op, nargs, raw, first } if *nargs >= 2 => Ins::UnknownStd { op: *op, nargs: 0xff, raw: raw.clone(), first: *first },
        o => o.clone(),
    }
}

// ---------------------------------------------------------------------------
// Expected tables

#[derive(Clone, Debug)]
struct ExpFile {
    path: Val,
    dir: Option<u64>,
    mtime: Option<u64>,
    size: Option<u64>,
    md5: Option<[u8; 16]>,
    /// None = not compared; Some(None) = no source; Some(Some(v))
    source: Option<Option<Val>>,
}

fn exp_v4(f: &FileV4) -> ExpFile {
    ExpFile { path: Val::Str(f.name.clone()), dir: Some(f.dir), mtime: Some(f.mtime), size: Some(f.len), md5: Some([0; 16]), source: Some(None) }
}

fn exp_v5(fmt: &[(u64, u64)], ent: &[Val]) -> ExpFile {
    let mut e = ExpFile { path: Val::Int(0), dir: Some(0), mtime: Some(0), size: Some(0), md5: Some([0; 16]), source: Some(None) };
    let mut seen = [0u8; 6];
    for (&(ct, form), v) in fmt.iter().zip(ent) {
        let int = |v: &Val| if let Val::Int(x) = v { Some(*x) } else { None };
        match ct {
            LNCT_PATH => e.path = v.clone(),
            LNCT_DIRECTORY_INDEX => {
                seen[0] += 1;
                e.dir = if is_int_form(form) && seen[0] == 1 { int(v) } else { None };
            }
            LNCT_TIMESTAMP => {
                seen[1] += 1;
                e.mtime = if is_int_form(form) && seen[1] == 1 { int(v) } else { None };
            }
            LNCT_SIZE => {
                seen[2] += 1;
                e.size = if is_int_form(form) && seen[2] == 1 { int(v) } else { None };
            }
            LNCT_MD5 => {
                seen[3] += 1;
                e.md5 = match v {
                    Val::Data16(b) if seen[3] == 1 => Some(*b),
                    _ => None,
                };
            }
            LNCT_LLVM_SOURCE => {
                seen[4] += 1;
                e.source = if is_string_form(form) && seen[4] == 1 { Some(Some(v.clone())) } else { None };
            }
            _ => {}
        }
    }
    e
}

fn attr_matches(a: &AttributeValue<R>, v: &Val) -> bool {
    match (a, v) {
        (AttributeValue::String(r), Val::Str(s)) => r.slice() == &s[..],
        (AttributeValue::DebugLineStrRef(o), Val::LineStrp(x)) => o.0 as u64 == *x,
        (AttributeValue::DebugStrRef(o), Val::Strp(x)) => o.0 as u64 == *x,
        (AttributeValue::DebugStrOffsetsIndex(i), Val::Strx(x)) => i.0 as u64 == *x,
        _ => false,
    }
}

fn file_matches(f: &gimli::FileEntry<R>, e: &ExpFile) -> Option<&'static str> {
    if !attr_matches(&f.path_name(), &e.path) {
        return Some("path");
    }
    if let Some(d) = e.dir {
        if f.directory_index() != d {
            return Some("directory_index");
        }
    }
    if let Some(d) = e.mtime {
        if f.timestamp() != d {
            return Some("timestamp");
        }
    }
    if let Some(d) = e.size {
        if f.size() != d {
            return Some("size");
        }
    }
    if let Some(d) = e.md5 {
        if *f.md5() != d {
            return Some("md5");
        }
    }
    match (&e.source, f.source()) {
        (None, _) => {}
        (Some(None), None) => {}
        (Some(Some(v)), Some(a)) if attr_matches(&a, v) => {}
        _ => return Some("source"),
    }
    None
}

// ---------------------------------------------------------------------------
// One program

pub struct Case<'a> {
    pub h: &'a Hdr,
    pub img: &'a HdrImage,
    pub body: &'a [u8],
    /// bytes before the unit in the section (unit offset)
    pub junk: usize,
    /// bytes after the unit (must never be executed)
    pub trailer: &'a [u8],
    pub comp_dir: Option<&'a [u8]>,
    pub comp_name: Option<&'a [u8]>,
    /// bit 0: compare the header and tables; bit 1: also instructions(), sequences(), resume_from()
    pub depth: u8,
    /// opcode value under sweep (for the `op:XX` coverage classes)
    pub sweep_op: Option<u8>,
}

fn render_case(c: &Case, dec: &Decoded) -> String {
    format!(
        "header[{}] body={} ({}{})",
        c.h.render(),
        mcx::hex(c.body),
        render_prog(&dec.ins),
        match dec.malformed {
            Some(w) => format!("; <malformed: {}>", w),
            None => String::new(),
        }
    )
}

fn check_header(ctx: &mut Ctx, c: &Case, hd: &gimli::LineProgramHeader<R>, unit_len: u64, rendered: &dyn Fn() -> String) {
    let h = c.h;
    let mut bad = |field: &str, got: String, want: String| {
        ctx.fail("DebugLine::program", &format!("header-{}", field), "wrong-value", format!("{}: {} got {} want {}", rendered(), field, got, want));
    };
    macro_rules! eq {
        ($name:expr, $got:expr, $want:expr) => {
            if ($got) != ($want) {
                bad($name, format!("{:?}", $got), format!("{:?}", $want));
            }
        };
    }
    eq!("version", hd.version(), h.version);
    eq!("address_size", hd.address_size(), h.addr_size);
    eq!("format", hd.format() == gimli::Format::Dwarf64, h.fmt64);
    eq!("offset", hd.offset().0, c.junk);
    eq!("unit_length", hd.unit_length() as u64, unit_len);
    eq!("header_length", hd.header_length() as u64, c.img.header_length);
    eq!("minimum_instruction_length", hd.minimum_instruction_length(), h.min_inst);
    eq!("maximum_operations_per_instruction", hd.maximum_operations_per_instruction(), h.eff_max_ops());
    eq!("default_is_stmt", hd.default_is_stmt(), h.default_is_stmt());
    eq!("line_base", hd.line_base(), h.line_base);
    eq!("line_range", hd.line_range(), h.line_range);
    eq!("opcode_base", hd.opcode_base(), h.opcode_base);
    eq!("standard_opcode_lengths", hd.standard_opcode_lengths().slice(), &h.std_lengths[..]);
    eq!("raw_program_buf", hd.raw_program_buf().slice(), c.body);
    let le = hd.line_encoding();
    eq!("line_encoding", (le.minimum_instruction_length, le.maximum_operations_per_instruction, le.default_is_stmt, le.line_base, le.line_range), (h.min_inst, h.eff_max_ops(), h.default_is_stmt(), h.line_base, h.line_range));
    // tables
    let (exp_dirs, exp_files, dfmt, ffmt): (Vec<Val>, Vec<ExpFile>, Vec<(u64, u64)>, Vec<(u64, u64)>) = match &h.tables {
        Tables::V4 { dirs, files } => (dirs.iter().map(|d| Val::Str(d.clone())).collect(), files.iter().map(exp_v4).collect(), vec![], vec![]),
        Tables::V5 { dirs, files } => (
            dirs.entries
                .iter()
                .map(|e| dirs.fmt.iter().zip(e).find(|((ct, _), _)| *ct == LNCT_PATH).map(|(_, v)| v.clone()).unwrap())
                .collect(),
            files.entries.iter().map(|e| exp_v5(&files.fmt, e)).collect(),
            dirs.fmt.clone(),
            files.fmt.clone(),
        ),
    };
    let clamp = |ct: u64| ct.min(0xffff) as u16;
    eq!("directory_entry_format", hd.directory_entry_format().iter().map(|f| (f.content_type.0, f.form.0 as u64)).collect::<Vec<_>>(), dfmt.iter().map(|&(ct, f)| (clamp(ct), f)).collect::<Vec<_>>());
    eq!("file_name_entry_format", hd.file_name_entry_format().iter().map(|f| (f.content_type.0, f.form.0 as u64)).collect::<Vec<_>>(), ffmt.iter().map(|&(ct, f)| (clamp(ct), f)).collect::<Vec<_>>());
    eq!("include_directories.len", hd.include_directories().len(), exp_dirs.len());
    for (i, (g, w)) in hd.include_directories().iter().zip(&exp_dirs).enumerate() {
        if !attr_matches(g, w) {
            bad("include_directories", format!("[{}]={:?}", i, g), format!("{:?}", w));
        }
    }
    eq!("file_names.len", hd.file_names().len(), exp_files.len());
    for (i, (g, w)) in hd.file_names().iter().zip(&exp_files).enumerate() {
        if let Some(f) = file_matches(g, w) {
            bad(&format!("file_names-{}", f), format!("[{}]={:?}", i, g), format!("{:?}", w));
        }
    }
    // index conventions (section 6.2.4: 1-based tables before version 5 with
    // index 0 = compilation directory / primary file; 0-based in version 5)
    let nd = exp_dirs.len() as u64;
    let nf = exp_files.len() as u64;
    if h.version <= 4 {
        match (hd.directory(0), c.comp_dir) {
            (None, None) => {}
            (Some(a), Some(d)) if attr_bytes(&a) == Some(d) => {}
            (g, w) => bad("directory(0)", format!("{:?}", g), format!("{:?}", w)),
        }
        for k in 1..=nd + 1 {
            let g = hd.directory(k);
            let ok = match (&g, exp_dirs.get(k as usize - 1)) {
                (None, None) => true,
                (Some(a), Some(w)) => attr_matches(a, w),
                _ => false,
            };
            if !ok {
                bad("directory(k)", format!("k={} {:?}", k, g), format!("{:?}", exp_dirs.get(k as usize - 1)));
            }
        }
        match (hd.file(0), c.comp_name) {
            (None, None) => {}
            (Some(f), Some(n)) if attr_bytes(&f.path_name()) == Some(n) && f.directory_index() == 0 => {}
            (g, w) => bad("file(0)", format!("{:?}", g), format!("{:?}", w)),
        }
        for k in 1..=nf + 1 {
            let g = hd.file(k);
            let ok = match (g, exp_files.get(k as usize - 1)) {
                (None, None) => true,
                (Some(a), Some(w)) => file_matches(a, w).is_none(),
                _ => false,
            };
            if !ok {
                bad("file(k)", format!("k={} {:?}", k, g), format!("{:?}", exp_files.get(k as usize - 1)));
            }
        }
        eq!("file_has", (hd.file_has_timestamp(), hd.file_has_size(), hd.file_has_md5(), hd.file_has_source()), (true, true, false, false));
    } else {
        for k in 0..=nd {
            let g = hd.directory(k);
            let ok = match (&g, exp_dirs.get(k as usize)) {
                (None, None) => true,
                (Some(a), Some(w)) => attr_matches(a, w),
                _ => false,
            };
            if !ok {
                bad("directory(k)", format!("k={} {:?}", k, g), format!("{:?}", exp_dirs.get(k as usize)));
            }
        }
        for k in 0..=nf {
            let g = hd.file(k);
            let ok = match (g, exp_files.get(k as usize)) {
                (None, None) => true,
                (Some(a), Some(w)) => file_matches(a, w).is_none(),
                _ => false,
            };
            if !ok {
                bad("file(k)", format!("k={} {:?}", k, g), format!("{:?}", exp_files.get(k as usize)));
            }
        }
        let has = |ct: u64| ffmt.iter().any(|&(c, _)| c == ct);
        eq!("file_has", (hd.file_has_timestamp(), hd.file_has_size(), hd.file_has_md5(), hd.file_has_source()), (has(LNCT_TIMESTAMP), has(LNCT_SIZE), has(LNCT_MD5), has(LNCT_LLVM_SOURCE)));
    }
}

/// Collect gimli's rows; returns (rows, error text, panic).
fn collect_rows<'a, P: gimli::LineProgram<R<'a>>>(rows: &mut gimli::LineRows<R<'a>, P>, out: &mut Vec<Row>) -> (Option<String>, Option<mcx::Panic>) {
    let r = guard(|| loop {
        match rows.next_row() {
            Ok(Some((_, r))) => out.push(grow(r)),
            Ok(None) => {
                // the end of the program is final
                for _ in 0..2 {
                    match rows.next_row() {
                        Ok(None) => {}
                        Ok(Some((_, r))) => return Some(format!("row {:?} yielded when polled again after the end of the program", grow(r))),
                        Err(e) => return Some(format!("{:?} when polled again after the end of the program", e)),
                    }
                }
                return None;
            }
            Err(e) => return Some(format!("{:?}", e)),
        }
    });
    match r {
        Ok(e) => (e, None),
        Err(p) => (None, Some(p)),
    }
}

/// Non-deciding model audit (DESIGN 3.8): with GV_LINE_AUDIT=<file prefix> every
/// N-th (GV_LINE_AUDIT_EVERY, default 997) well-formed program that
/// llvm-dwarfdump 14 can interpret (little endian, no VLIW, unit at offset 0)
/// is appended as `section-hex<TAB>model rows` to <prefix>.<pid>;
/// line/audit.py compares those rows with `llvm-dwarfdump --debug-line`.
fn audit_dump(h: &Hdr, sec: &[u8], junk: usize, rows: &[Row]) {
    use std::io::Write;
    use std::sync::atomic::{AtomicU64, Ordering};
    use std::sync::OnceLock;
    static CFG: OnceLock<Option<(String, u64)>> = OnceLock::new();
    static N: AtomicU64 = AtomicU64::new(0);
    let Some((prefix, every)) = CFG.get_or_init(|| std::env::var("GV_LINE_AUDIT").ok().map(|p| (p, std::env::var("GV_LINE_AUDIT_EVERY").ok().and_then(|s| s.parse().ok()).unwrap_or(997)))) else { return };
    if h.big || h.eff_max_ops() != 1 || junk != 0 || !(h.version >= 5 || h.addr_size == 8) || h.opcode_base < 10 {
        return;
    }
    if N.fetch_add(1, Ordering::Relaxed) % every != 0 {
        return;
    }
    let path = format!("{}.{}", prefix, std::process::id());
    if let Ok(mut f) = std::fs::OpenOptions::new().create(true).append(true).open(path) {
        let rs: Vec<String> = rows.iter().map(|r| format!("{:x},{},{},{},{},{},{}{}{}{}{}", r.address, r.line, r.column, r.file, r.isa, r.discriminator, if r.is_stmt { "S" } else { "" }, if r.basic_block { "B" } else { "" }, if r.prologue_end { "P" } else { "" }, if r.epilogue_begin { "G" } else { "" }, if r.end_sequence { "E" } else { "" })).collect();
        let _ = writeln!(f, "{}\t{}", mcx::hex(sec), rs.join(" "));
    }
}

pub fn check_program(ctx: &mut Ctx, c: &Case) {
    let h = c.h;
    let mut sec = vec![0xcc; c.junk];
    let unit_len = push_unit(h, c.img, c.body, &mut sec);
    sec.extend_from_slice(c.trailer);
    let dec = decode(h, c.body);
    // (for a malformed body the machine runs on the decodable prefix, only to
    // classify any-input findings)
    let out = Some(run(h, &dec.ins));
    let rendered = || render_case(c, &dec);
    ctx.eval(1);
    if ctx.want_sample() {
        let s = format!(
            "section={} :: {} :: model {}",
            mcx::hex(&sec),
            rendered(),
            match &out {
                Some(o) if dec.malformed.is_none() && o.ill.is_none() => render_rows(&o.rows),
                Some(o) if dec.malformed.is_none() => format!("ill-formed({})", o.ill.unwrap()),
                _ => "malformed".into(),
            }
        );
        ctx.sample(s);
    }

    let e = endian(h.big);
    let dl = DebugLine::new(&sec, e);
    let cd = c.comp_dir.map(|d| EndianSlice::new(d, e));
    let cn = c.comp_name.map(|d| EndianSlice::new(d, e));
    let prog = match guard(|| dl.program(DebugLineOffset(c.junk), h.addr_size, cd, cn)) {
        Err(p) => {
            crate::fail_panic(ctx, "DebugLine::program", &p, rendered());
            return;
        }
        Ok(Err(err)) => {
            // narrow key for the one allowed-but-unusual shape (no file entry formats, no files)
            let empty_files = matches!(&h.tables, Tables::V5 { files, .. } if files.fmt.is_empty() && files.entries.is_empty());
            let kind = format!("{}:{:?}", if empty_files { "rejected-empty-file_name_entry_format" } else { "rejected" }, err).split_whitespace().collect::<Vec<_>>().join("_");
            ctx.fail("DebugLine::program", "header-accept", &kind, format!("{}: Err({:?}) on a well-formed header", rendered(), err));
            return;
        }
        Ok(Ok(p)) => p,
    };
    if c.depth & 1 != 0 {
        check_header(ctx, c, prog.header(), unit_len, &rendered);
        ctx.outcome(match h.version {
            2 => "hdr:v2",
            3 => "hdr:v3",
            4 => "hdr:v4",
            _ => "hdr:v5",
        });
    }

    // ---- straight run
    let mut rows = prog.clone().rows();
    let mut got: Vec<Row> = Vec::new();
    let (err, panic) = collect_rows(&mut rows, &mut got);

    // classification
    let surplus_other = dec.ins.iter().any(|i| i.surplus() > 0 && !matches!(i, Ins::SetAddress { .. }));
    let surplus_addr = dec.ins.iter().any(|i| matches!(i, Ins::SetAddress { surplus, .. } if *surplus > 0));
    let class: &str = if dec.malformed.is_some() {
        "malformed"
    } else if dec.latitude.is_some() || surplus_addr {
        "latitude"
    } else if let Some(o) = &out {
        if o.ill.is_some() {
            "ill-formed"
        } else if o.tombstoned {
            "tombstone"
        } else {
            "well-formed"
        }
    } else {
        unreachable!()
    };
    let compare = class == "well-formed" || class == "tombstone";

    if let Some(p) = &panic {
        if compare {
            crate::fail_panic(ctx, "LineRows::next_row", p, rendered());
        } else {
            // not a C04 clause (robustness on ill-formed input is C01)
            ctx.outcome("ill-formed:panic-left-to-C01");
        }
        return;
    }

    // ---- any-input clause, on the rows as a consumer observes them
    ctx.outcome("anyinput:checked");
    let mask = h.addr_mask();
    let mut prev: Option<u64> = None;
    for (k, r) in got.iter().enumerate() {
        if r.address > mask {
            ctx.fail("LineRows::next_row", "anyinput-address-size", "address-exceeds-address-size", format!("{}: row {} = {}", rendered(), k, render_row(r)));
        }
        if let Some(p) = prev {
            if r.address < p {
                let kind = if out.as_ref().map(|o| o.suppressed_end_after_rows).unwrap_or(false) { "decrease-after-suppressed-end_sequence" } else { "address-decreased" };
                ctx.fail("LineRows::next_row", "anyinput-monotonic", kind, format!("{}: rows {} (row {} goes below {:#x} with no end_sequence row between)", rendered(), render_rows(&got), k, p));
            }
        }
        prev = if r.end_sequence { None } else { Some(r.address) };
    }

    match class {
        "malformed" => {
            ctx.outcome("class:malformed");
            if err.is_some() {
                ctx.outcome("malformed:err");
            }
            return;
        }
        "latitude" => {
            ctx.outcome("class:latitude");
            return;
        }
        "ill-formed" => {
            ctx.outcome(match out.as_ref().unwrap().ill.unwrap() {
                "address-overflow" => "ill-formed:address-overflow",
                "line-underflow" => "ill-formed:line-underflow",
                _ => "ill-formed:line-overflow",
            });
            if err.is_some() {
                ctx.outcome("ill-formed:gimli-err");
            }
            return;
        }
        _ => {}
    }
    let o = out.as_ref().unwrap();
    let entry = "LineRows::next_row";
    let site_rows = if o.opadvance_over_64bit {
        "rows-opadvance-over-64bit"
    } else if class == "tombstone" {
        "tombstone-rows"
    } else {
        "rows"
    };
    ctx.nontriv(1);
    ctx.outcome(if class == "tombstone" { "class:tombstone" } else { "class:well-formed" });
    if let Some(e) = &err {
        if surplus_other {
            ctx.outcome("surplus:rejected");
            return;
        }
        ctx.fail(entry, site_rows, "error-on-well-formed-program", format!("{}: Err({}) after rows {}; model {}", rendered(), e, render_rows(&got), render_rows(&o.rows)));
        return;
    }
    if surplus_other {
        ctx.outcome("surplus:skipped");
    }
    let mut rows_ok = true;
    if got.len() != o.rows.len() {
        rows_ok = false;
        ctx.fail(entry, site_rows, if o.opadvance_over_64bit { "wrong-row" } else { "row-count" }, format!("{}: got {} want {}", rendered(), render_rows(&got), render_rows(&o.rows)));
    } else {
        for (k, (g, m)) in got.iter().zip(&o.rows).enumerate() {
            if let Some(f) = row_diff(g, m) {
                rows_ok = false;
                ctx.fail(entry, site_rows, &if o.opadvance_over_64bit { "wrong-row".to_string() } else { format!("wrong-{}", f) }, format!("{}: row {}: got {} want {}", rendered(), k, render_rows(&got), render_rows(&o.rows)));
                break;
            }
        }
    }
    if rows_ok && class == "well-formed" {
        audit_dump(h, &sec, c.junk, &o.rows);
    }
    if rows_ok {
        if let Some(op) = c.sweep_op {
            ctx.outcome(&format!("op:{:02x}", op));
        }
        if o.unterminated {
            ctx.outcome("rows:unterminated-tail");
        }
        if o.rows.iter().any(|r| r.op_index != 0) {
            ctx.outcome("rows:op_index-nonzero");
        }
    }
    // files appended by DW_LNE_define_file
    if !o.defined.is_empty() {
        let base = match &h.tables {
            Tables::V4 { files, .. } => files.len(),
            Tables::V5 { files, .. } => files.entries.len(),
        };
        let fs = rows.header().file_names();
        let ok = fs.len() == base + o.defined.len() && fs[base..].iter().zip(&o.defined).all(|(g, w)| file_matches(g, &exp_v4(w)).is_none());
        if !ok {
            ctx.fail("LineRows::next_row", "define_file-table", "wrong-file-table", format!("{}: file_names after run {:?}; want header files + {:?}", rendered(), fs, o.defined));
        }
        ctx.outcome("define_file:appended");
    }
    if c.depth & 2 == 0 || !rows_ok {
        return;
    }

    // ---- instruction decode
    {
        let hd = prog.header();
        let mut it = hd.instructions();
        let mut gi: Vec<Ins> = vec![];
        let r = guard(|| loop {
            match it.next_instruction(hd) {
                Ok(Some(i)) => gi.push(gins(&i)),
                Ok(None) => {
                    for _ in 0..2 {
                        match it.next_instruction(hd) {
                            Ok(None) => {}
                            Ok(Some(i)) => return Some(format!("instruction {:?} yielded when polled again after the end", gins(&i))),
                            Err(e) => return Some(format!("{:?} when polled again after the end", e)),
                        }
                    }
                    return None;
                }
                Err(e) => return Some(format!("{:?}", e)),
            }
        });
        match r {
            Err(p) => crate::fail_panic(ctx, "LineInstructions::next_instruction", &p, rendered()),
            Ok(Some(e)) => ctx.fail("LineInstructions::next_instruction", "instructions", "error-on-well-formed-program", format!("{}: Err({})", rendered(), e)),
            Ok(None) => {
                let want: Vec<Ins> = dec.ins.iter().map(observable).collect();
                if gi != want {
                    ctx.fail("LineInstructions::next_instruction", "instructions", "wrong-decode", format!("{}: got [{}]", rendered(), render_prog(&gi)));
                } else {
                    for i in &dec.ins {
                        ctx.outcome(i.class());
                    }
                }
            }
        }
    }

    // ---- sequences() and resume_from()
    let sq = guard(|| prog.clone().sequences());
    match sq {
        Err(p) => crate::fail_panic(ctx, "IncompleteLineProgram::sequences", &p, rendered()),
        Ok(Err(e)) => ctx.fail("IncompleteLineProgram::sequences", "sequences", "error-on-well-formed-program", format!("{}: Err({:?})", rendered(), e)),
        Ok(Ok((complete, seqs))) => {
            ctx.outcome("seq:compared");
            if seqs.len() != o.seqs.len() {
                ctx.fail("IncompleteLineProgram::sequences", "sequences", "sequence-count", format!("{}: got {} sequences {:?} want {:?}", rendered(), seqs.len(), seqs.iter().map(|s| (s.start, s.end)).collect::<Vec<_>>(), o.seqs));
                return;
            }
            for (k, (g, m)) in seqs.iter().zip(&o.seqs).enumerate() {
                if g.end != m.end {
                    ctx.fail("IncompleteLineProgram::sequences", "seq-end", "wrong-end", format!("{}: sequence {} end got {:#x} want {:#x}", rendered(), k, g.end, m.end));
                }
                if g.start != m.start {
                    let kind = if m.bare && g.start == 0 { "bare-end_sequence-start-0" } else { "wrong-start" };
                    ctx.fail("IncompleteLineProgram::sequences", "seq-start", kind, format!("{}: sequence {} (rows {}) reported start {:#x} end {:#x}; first row address {:#x}", rendered(), k, render_rows(&o.rows[m.first..m.first + m.n]), g.start, g.end, m.start));
                }
                if m.bare {
                    ctx.outcome("seq:bare-end");
                }
                let mut rr = complete.resume_from(g);
                let mut got2 = vec![];
                let (e2, p2) = collect_rows(&mut rr, &mut got2);
                if let Some(p) = p2 {
                    crate::fail_panic(ctx, "CompleteLineProgram::resume_from", &p, rendered());
                    continue;
                }
                if let Some(e) = e2 {
                    ctx.fail("CompleteLineProgram::resume_from", "resume-rows", "error-on-well-formed-program", format!("{}: sequence {} Err({})", rendered(), k, e));
                    continue;
                }
                if got2[..] != o.rows[m.first..m.first + m.n] {
                    ctx.fail("CompleteLineProgram::resume_from", "resume-rows", "rows-differ-from-straight-run", format!("{}: sequence {}: resumed {} straight {}", rendered(), k, render_rows(&got2), render_rows(&o.rows[m.first..m.first + m.n])));
                } else {
                    ctx.outcome("seq:resumed");
                }
            }
            if seqs.len() >= 2 {
                ctx.outcome("seq:multi");
            }
            if !o.defined.is_empty() {
                let base = complete.header().file_names().len() - o.defined.len().min(complete.header().file_names().len());
                let fs = complete.header().file_names();
                if fs.len() < o.defined.len() || !fs[base..].iter().zip(&o.defined).all(|(g, w)| file_matches(g, &exp_v4(w)).is_none()) {
                    ctx.fail("IncompleteLineProgram::sequences", "define_file-table", "wrong-file-table", format!("{}: complete program file_names {:?}", rendered(), fs));
                }
            }
        }
    }
}

// ---------------------------------------------------------------------------
// Header sets and configurations

#[derive(Clone, Copy, Debug)]
pub struct Cfg {
    pub version: u16,
    pub fmt64: bool,
    pub addr: u8,
    pub big: bool,
}

fn all_cfgs() -> Vec<Cfg> {
    let mut v = vec![];
    for version in [2u16, 3, 4, 5] {
        for fmt64 in [false, true] {
            for addr in [1u8, 2, 4, 8] {
                for big in [false, true] {
                    v.push(Cfg { version, fmt64, addr, big });
                }
            }
        }
    }
    v
}

/// 8 configurations in which every version, format, address size and byte
/// order occurs, every version with both byte orders.
fn sweep_cfgs() -> Vec<Cfg> {
    vec![
        Cfg { version: 4, fmt64: false, addr: 8, big: false },
        Cfg { version: 5, fmt64: false, addr: 4, big: true },
        Cfg { version: 2, fmt64: false, addr: 4, big: false },
        Cfg { version: 3, fmt64: true, addr: 8, big: true },
        Cfg { version: 5, fmt64: true, addr: 8, big: false },
        Cfg { version: 4, fmt64: true, addr: 2, big: true },
        Cfg { version: 3, fmt64: false, addr: 1, big: false },
        Cfg { version: 2, fmt64: true, addr: 2, big: true },
    ]
}

fn default_tables(version: u16) -> Tables {
    if version <= 4 {
        Tables::V4 { dirs: vec![b"inc".to_vec()], files: vec![FileV4 { name: b"a.c".to_vec(), dir: 0, mtime: 0, len: 0 }, FileV4 { name: b"b.h".to_vec(), dir: 1, mtime: 0x1234, len: 0x80 }] }
    } else {
        Tables::V5 {
            dirs: V5Table { fmt: vec![(LNCT_PATH, FORM_STRING)], entries: vec![vec![Val::Str(b"/cd".to_vec())], vec![Val::Str(b"inc".to_vec())]] },
            files: V5Table { fmt: vec![(LNCT_PATH, FORM_STRING), (LNCT_DIRECTORY_INDEX, FORM_UDATA)], entries: vec![vec![Val::Str(b"a.c".to_vec()), Val::Int(0)], vec![Val::Str(b"b.h".to_vec()), Val::Int(1)]] },
        }
    }
}

#[derive(Clone, Copy, Debug)]
pub struct Params {
    pub min_inst: u8,
    pub max_ops: u8,
    pub stmt: u8,
    pub line_base: i8,
    pub line_range: u8,
    pub opcode_base: u8,
    /// lengths of opcodes >= 16 are (op + pat) % 4; 13, 14, 15 take 0, 1, 2
    /// operands when `seq_lens`, else the same formula.
    pub pat: u8,
    pub seq_lens: bool,
}

fn mk_hdr(p: Params, c: Cfg) -> Hdr {
    let lens = std_lengths(p.opcode_base, |op| if p.seq_lens && op <= 15 { op - 13 } else { (op.wrapping_add(p.pat)) % 4 });
    Hdr { version: c.version, fmt64: c.fmt64, addr_size: c.addr, big: c.big, min_inst: p.min_inst, max_ops: p.max_ops, stmt_byte: p.stmt, line_base: p.line_base, line_range: p.line_range, opcode_base: p.opcode_base, std_lengths: lens, tables: default_tables(c.version), pad: 0 }
}

const MI: [u8; 4] = [1, 2, 4, 255];
const MO: [u8; 4] = [1, 2, 4, 255];
const LB: [i8; 6] = [-128, -5, -1, 0, 1, 127];
const LR: [u8; 4] = [1, 2, 14, 255];
const OB: [u8; 8] = [1, 2, 4, 10, 13, 14, 20, 255];

/// 48-element covering set: every (min_inst, max_ops) pair and every pair of
/// values among (line_base, line_range, opcode_base) occurs.
fn covering_params() -> Vec<Params> {
    (0..48usize)
        .map(|i| Params { min_inst: MI[i % 4], max_ops: MO[(i / 4) % 4], stmt: [1u8, 0, 0x80][(i / 3) % 3], line_base: LB[i % 6], opcode_base: OB[i / 6], line_range: LR[(i % 6 + i / 6) % 4], pat: (i % 4) as u8, seq_lens: false })
        .collect()
}

fn full_params() -> Vec<Params> {
    let mut v = vec![];
    let mut n = 0usize;
    for &min_inst in &MI {
        for &max_ops in &MO {
            for &line_base in &LB {
                for &line_range in &LR {
                    for &opcode_base in &OB {
                        for stmt in [0u8, 1] {
                            v.push(Params { min_inst, max_ops, stmt, line_base, line_range, opcode_base, pat: (n % 4) as u8, seq_lens: false });
                            n += 1;
                        }
                    }
                }
            }
        }
    }
    v
}

/// Headers for the instruction-sequence spaces.
fn seq_params() -> Vec<Params> {
    vec![
        Params { min_inst: 1, max_ops: 1, stmt: 1, line_base: -5, line_range: 14, opcode_base: 13, pat: 0, seq_lens: true },
        Params { min_inst: 4, max_ops: 4, stmt: 1, line_base: -3, line_range: 12, opcode_base: 16, pat: 0, seq_lens: true },
        Params { min_inst: 2, max_ops: 1, stmt: 0, line_base: -1, line_range: 4, opcode_base: 10, pat: 0, seq_lens: true },
        Params { min_inst: 1, max_ops: 3, stmt: 1, line_base: 1, line_range: 255, opcode_base: 4, pat: 0, seq_lens: true },
        Params { min_inst: 255, max_ops: 255, stmt: 1, line_base: -128, line_range: 1, opcode_base: 255, pat: 1, seq_lens: true },
        Params { min_inst: 1, max_ops: 2, stmt: 0, line_base: 0, line_range: 2, opcode_base: 1, pat: 0, seq_lens: true },
    ]
}

// ---------------------------------------------------------------------------
// Sub-spaces

fn base_addr(h: &Hdr) -> u64 {
    if h.addr_size == 1 {
        0x10
    } else {
        0x1000
    }
}

/// The instruction alphabet of DESIGN C04 as byte chunks (encoded as if every
/// standard opcode existed; under a smaller opcode_base the same bytes are
/// special opcodes, and the reference decoder says so).
fn alphabet(h: &Hdr, thorough: bool) -> Vec<Vec<u8>> {
    let a = base_addr(h);
    let ob = h.opcode_base;
    let mid = ((ob as u16 + 255) / 2) as u8;
    let mut syms: Vec<Ins> = vec![
        Ins::Special(ob),
        Ins::Special(255),
        Ins::Copy,
        Ins::AdvancePc(1),
        Ins::AdvancePc(128),
        Ins::AdvanceLine(-1),
        Ins::AdvanceLine(1),
        Ins::AdvanceLine(200),
        Ins::SetFile(2),
        Ins::SetColumn(7),
        Ins::NegateStmt,
        Ins::SetBasicBlock,
        Ins::ConstAddPc,
        Ins::FixedAdvancePc(1),
        Ins::SetPrologueEnd,
        Ins::SetEpilogueBegin,
        Ins::SetIsa(3),
        unknown_std(13, &[]),
        unknown_std(14, &[0x85]),
        Ins::EndSequence { surplus: 0 },
        Ins::SetAddress { addr: a, surplus: 0 },
        Ins::SetAddress { addr: a + 0x10, surplus: 0 },
        Ins::DefineFile { f: FileV4 { name: b"x.c".to_vec(), dir: 1, mtime: 2, len: 300 }, surplus: 0 },
        Ins::SetDiscriminator { v: 5, surplus: 0 },
        Ins::UnknownExt { op: 0x80, payload: vec![] },
        Ins::UnknownExt { op: 0x05, payload: vec![0x01] },
        Ins::SetDiscriminator { v: 9, surplus: 1 },
        Ins::FixedAdvancePc(0xffff),
    ];
    if thorough {
        syms.extend([Ins::Special(mid), Ins::AdvancePc(0), Ins::AdvanceLine(0), unknown_std(15, &[0x05, 0x81]), Ins::UnknownExt { op: 0xff, payload: vec![0x00, 0x01] }, Ins::EndSequence { surplus: 2 }]);
    }
    syms.iter()
        .map(|i| {
            let mut e = Enc::new(h.big);
            enc_ins(&mut e, h, i);
            e.buf
        })
        .collect()
}

fn frame(h: &Hdr, inner: &[u8]) -> Vec<u8> {
    let mut e = Enc::new(h.big);
    enc_ins(&mut e, h, &Ins::SetAddress { addr: base_addr(h), surplus: 0 });
    e.bytes(inner);
    enc_ins(&mut e, h, &Ins::EndSequence { surplus: 0 });
    e.buf
}

const CHUNK: u64 = 64;

fn sub_sequences(tier: Tier, subs: &mut Vec<Sub>) {
    let thorough = tier == Tier::Thorough;
    let maxlen = tier.pick(3u32, 4u32);
    let nsym = tier.pick(28u64, 34u64);
    let params = seq_params();
    let cfgs: Vec<Cfg> = sweep_cfgs();
    let nseq = seq_count(nsym, 0, maxlen);
    let nchunk = nseq.div_ceil(CHUNK);
    let ncase = params.len() as u64 * cfgs.len() as u64 * 2 * nchunk;
    let bound = format!(
        "every instruction sequence of length 0..={} over the {}-symbol alphabet (special min/max{}, copy, advance_pc {{{}1,128}}, advance_line {{-1,{}1,200}}, set_file, set_column, negate_stmt, set_basic_block, const_add_pc, fixed_advance_pc {{1,0xffff}}, set_prologue_end, set_epilogue_begin, set_isa, unknown standard opcode with 0/1{} operands, end_sequence{}, set_address {{base, base+0x10}}, define_file, set_discriminator, unknown extended opcode with 0/1{} payload bytes, set_discriminator with 1 surplus byte), framed by set_address..end_sequence and unframed, x {} headers (default; VLIW min_inst 4 max_ops 4 opcode_base 16; opcode_base 10; opcode_base 4 line_base +1 line_range 255 max_ops 3; opcode_base 255 min_inst 255 max_ops 255 line_base -128 line_range 1; opcode_base 1 max_ops 2) x {} configurations (version/format/address size/byte order); rows(), instructions(), sequences(), resume_from() all compared; {} sequences per case",
        maxlen,
        nsym,
        if thorough { "/mid" } else { "" },
        if thorough { "0," } else { "" },
        if thorough { "0," } else { "" },
        if thorough { "/2" } else { "" },
        if thorough { " (also with 2 surplus bytes)" } else { "" },
        if thorough { "/2" } else { "" },
        params.len(),
        cfgs.len(),
        CHUNK
    );
    push_sub(subs, Sub::new("seq-programs", ncase, &bound, move |ctx, i| {
        let mut m = Mix(i);
        let chunk = m.take(nchunk);
        let framed = m.flag();
        let c = *m.pick(&cfgs);
        let p = *m.pick(&params);
        let h = mk_hdr(p, c);
        let img = h.image();
        let alpha = alphabet(&h, thorough);
        debug_assert_eq!(alpha.len() as u64, nsym);
        for s in chunk * CHUNK..((chunk + 1) * CHUNK).min(nseq) {
            let seq = seq_decode(nsym, 0, maxlen, s);
            let mut inner = vec![];
            for &k in &seq {
                inner.extend_from_slice(&alpha[k]);
            }
            let body = if framed { frame(&h, &inner) } else { inner };
            check_program(ctx, &Case { h: &h, img: &img, body: &body, junk: 0, trailer: &[], comp_dir: None, comp_name: None, depth: if s % CHUNK == 0 { 3 } else { 2 }, sweep_op: None });
        }
    }));
}

fn sub_tombstone(tier: Tier, subs: &mut Vec<Sub>) {
    let maxlen = tier.pick(4u32, 5u32);
    let cfgs = sweep_cfgs();
    let params = vec![seq_params()[0], seq_params()[1]];
    let nsym = 12u64;
    let nseq = seq_count(nsym, 0, maxlen);
    let nchunk = nseq.div_ceil(CHUNK);
    let ncase = params.len() as u64 * cfgs.len() as u64 * nchunk;
    push_sub(subs, Sub::new(
        "tombstone-programs",
        ncase,
        &format!("every sequence of length 0..={} over {{set_address base, base+0x10, base-8, all-ones, all-ones-1, all-ones-2; copy; special; advance_pc 1; fixed_advance_pc 1; advance_line 1; end_sequence}} x 2 headers x 8 configurations, compared with the state machine extended by the documented tombstone rule; the any-input clause on every one", maxlen),
        move |ctx, i| {
            let mut m = Mix(i);
            let chunk = m.take(nchunk);
            let c = *m.pick(&cfgs);
            let p = *m.pick(&params);
            let h = mk_hdr(p, c);
            let img = h.image();
            let a = base_addr(&h);
            let mask = h.addr_mask();
            let syms = [
                Ins::SetAddress { addr: a, surplus: 0 },
                Ins::SetAddress { addr: a + 0x10, surplus: 0 },
                Ins::SetAddress { addr: a - 8, surplus: 0 },
                Ins::SetAddress { addr: mask, surplus: 0 },
                Ins::SetAddress { addr: mask - 1, surplus: 0 },
                Ins::SetAddress { addr: mask - 2, surplus: 0 },
                Ins::Copy,
                Ins::Special(h.opcode_base + h.line_range + 1),
                Ins::AdvancePc(1),
                Ins::FixedAdvancePc(1),
                Ins::AdvanceLine(1),
                Ins::EndSequence { surplus: 0 },
            ];
            for s in chunk * CHUNK..((chunk + 1) * CHUNK).min(nseq) {
                let seq = seq_decode(nsym, 0, maxlen, s);
                let prog: Vec<Ins> = seq.iter().map(|&k| syms[k].clone()).collect();
                let body = enc_prog(&h, &prog);
                check_program(ctx, &Case { h: &h, img: &img, body: &body, junk: 0, trailer: &[], comp_dir: None, comp_name: None, depth: 2, sweep_op: None });
            }
        },
    ));
}

fn sub_boundary(tier: Tier, subs: &mut Vec<Sub>) {
    let maxlen = 3u32;
    let cfgs: Vec<Cfg> = vec![Cfg { version: 4, fmt64: false, addr: 8, big: false }, Cfg { version: 5, fmt64: true, addr: 8, big: true }, Cfg { version: 3, fmt64: false, addr: 4, big: false }, Cfg { version: 4, fmt64: false, addr: 2, big: true }];
    let params: Vec<Params> = tier.pick(vec![seq_params()[0], seq_params()[1], seq_params()[5]], seq_params());
    let nsym = 22u64;
    let nseq = seq_count(nsym, 0, maxlen);
    let nchunk = nseq.div_ceil(CHUNK);
    let ncase = params.len() as u64 * cfgs.len() as u64 * nchunk;
    push_sub(subs, Sub::new(
        "boundary-operands",
        ncase,
        &format!("every sequence of length 0..=3 over 22 boundary-operand instructions (advance_pc {{2^32, 2^63, 2^64-1}}, advance_line {{i64::MIN, i64::MAX, -2^31, 2^32}}, set_file/set_column/set_isa/set_discriminator 2^64-1, fixed_advance_pc 0xffff, special min/max, const_add_pc, copy, advance_pc 1, set_address {{0, max-2, 2^31}}, unknown standard with 2^64-1 operand, end_sequence), followed by copy; end_sequence, x {} headers x 4 configurations", params.len()),
        move |ctx, i| {
            let mut m = Mix(i);
            let chunk = m.take(nchunk);
            let c = *m.pick(&cfgs);
            let p = *m.pick(&params);
            let h = mk_hdr(p, c);
            let img = h.image();
            let mask = h.addr_mask();
            let syms = [
                Ins::AdvancePc(1 << 32),
                Ins::AdvancePc(1 << 63),
                Ins::AdvancePc(u64::MAX),
                Ins::AdvancePc(1),
                Ins::AdvanceLine(i64::MIN),
                Ins::AdvanceLine(i64::MAX),
                Ins::AdvanceLine(-(1 << 31)),
                Ins::AdvanceLine(1 << 32),
                Ins::SetFile(u64::MAX),
                Ins::SetColumn(u64::MAX),
                Ins::SetIsa(u64::MAX),
                Ins::SetDiscriminator { v: u64::MAX, surplus: 0 },
                Ins::FixedAdvancePc(0xffff),
                Ins::Special(h.opcode_base),
                Ins::Special(255),
                Ins::ConstAddPc,
                Ins::Copy,
                Ins::SetAddress { addr: 0, surplus: 0 },
                Ins::SetAddress { addr: mask - 2, surplus: 0 },
                Ins::SetAddress { addr: (1u64 << 31) & mask, surplus: 0 },
                unknown_std(14, &[u64::MAX]),
                Ins::EndSequence { surplus: 0 },
            ];
            for s in chunk * CHUNK..((chunk + 1) * CHUNK).min(nseq) {
                let seq = seq_decode(nsym, 0, maxlen, s);
                let mut prog: Vec<Ins> = seq.iter().map(|&k| syms[k].clone()).collect();
                prog.push(Ins::Copy);
                prog.push(Ins::EndSequence { surplus: 0 });
                let body = enc_prog(&h, &prog);
                check_program(ctx, &Case { h: &h, img: &img, body: &body, junk: 0, trailer: &[], comp_dir: None, comp_name: None, depth: 2, sweep_op: None });
            }
        },
    ));
}

/// Programs of the opcode sweep for opcode byte `b`.
fn sweep_programs(h: &Hdr, b: u8, out: &mut Vec<Vec<u8>>) {
    let a = base_addr(h);
    let pre = |e: &mut Enc, with_op: bool| {
        enc_ins(e, h, &Ins::SetAddress { addr: a, surplus: 0 });
        if with_op {
            enc_ins(e, h, &Ins::AdvancePc(1));
        }
    };
    let post = |e: &mut Enc| {
        // copy (0x01 is a special opcode when opcode_base == 1), end_sequence
        e.u8(LNS_COPY);
        enc_ins(e, h, &Ins::EndSequence { surplus: 0 });
    };
    let mut push = |mid: &[u8], with_op: bool| {
        let mut e = Enc::new(h.big);
        pre(&mut e, with_op);
        e.bytes(mid);
        post(&mut e);
        out.push(e.buf);
    };
    let uleb = |v: u64| {
        let mut x = vec![];
        mcx::leb::enc_uleb(v, &mut x);
        x
    };
    let sleb = |v: i64| {
        let mut x = vec![];
        mcx::leb::enc_sleb(v, &mut x);
        x
    };
    if b >= h.opcode_base {
        push(&[b], false);
        push(&[b], true);
        push(&[b, b], false);
        return;
    }
    if b == 0 {
        let mask = h.addr_mask();
        for sub in 0..=255u8 {
            let mut ext = |payload: &[u8]| {
                let mut m = vec![0u8];
                m.extend(uleb(1 + payload.len() as u64));
                m.push(sub);
                m.extend_from_slice(payload);
                push(&m, false);
            };
            match sub {
                LNE_END_SEQUENCE => {
                    ext(&[]);
                    ext(&[0x5a]);
                }
                LNE_SET_ADDRESS => {
                    for (addr, extra) in [(a + 8, 0usize), (mask - 2, 0), (a, 0), (a + 8, 2)] {
                        let mut p = Enc::new(h.big);
                        p.addr(addr, h.addr_size);
                        p.bytes(&vec![0x5a; extra]);
                        ext(&p.buf);
                    }
                    ext(&vec![0x11; h.addr_size as usize - 1]); // short operand: malformed
                }
                LNE_DEFINE_FILE => {
                    ext(b"n.c\0\x01\x02\x03");
                    ext(b"q\0\x80\x01\xff\x7f\x00\x5a");
                    ext(b"n.c"); // no terminator (malformed before version 5)
                }
                LNE_SET_DISCRIMINATOR => {
                    for v in [0u64, 0x7f, 0x80, u64::MAX] {
                        ext(&uleb(v));
                    }
                    ext(&[0x07, 0x5a]);
                }
                _ => {
                    ext(&[]);
                    ext(&[0x01]);
                    ext(&[0x00, 0x01, 0x01]);
                }
            }
        }
        push(&[0, 0], false); // extended length 0: malformed
        return;
    }
    let u_ops = [0u64, 1, 0x7f, 0x80, 1 << 32, u64::MAX];
    match b {
        LNS_ADVANCE_PC | LNS_SET_FILE | LNS_SET_COLUMN | LNS_SET_ISA => {
            for v in u_ops {
                let mut m = vec![b];
                m.extend(uleb(v));
                push(&m, b == LNS_ADVANCE_PC);
            }
        }
        LNS_ADVANCE_LINE => {
            for v in [0i64, -1, 1, 63, 64, -64, -65, i32::MIN as i64, i64::MAX, i64::MIN] {
                let mut m = vec![b];
                m.extend(sleb(v));
                push(&m, false);
            }
        }
        LNS_FIXED_ADVANCE_PC => {
            for v in [0u16, 1, 0xff, 0x100, 0xfffe] {
                let mut e = Enc::new(h.big);
                e.u8(b).u16(v);
                push(&e.buf, true);
            }
        }
        LNS_COPY | LNS_NEGATE_STMT | LNS_SET_BASIC_BLOCK | LNS_CONST_ADD_PC | LNS_SET_PROLOGUE_END | LNS_SET_EPILOGUE_BEGIN => {
            push(&[b], false);
            push(&[b], true);
            push(&[b, b], false);
        }
        _ => {
            let n = h.std_lengths[b as usize - 1] as usize;
            for v in [0u64, 0x7f, 0x80, u64::MAX] {
                let mut m = vec![b];
                for _ in 0..n {
                    m.extend(uleb(v));
                }
                push(&m, false);
                if n == 0 {
                    break;
                }
            }
        }
    }
}

fn sub_opcodes(tier: Tier, subs: &mut Vec<Sub>) {
    let cover = covering_params();
    let cfgs8 = sweep_cfgs();
    let cfgs64 = all_cfgs();
    // (params, cfg) pairs: covering x 8 (quick); + covering x 64 + full x 8 (thorough)
    let mut pairs: Vec<(Params, Cfg)> = vec![];
    for p in &cover {
        for c in &cfgs8 {
            pairs.push((*p, *c));
        }
    }
    if tier == Tier::Thorough {
        for p in &cover {
            for c in &cfgs64 {
                pairs.push((*p, *c));
            }
        }
        for p in full_params() {
            for c in &cfgs8 {
                pairs.push((p, *c));
            }
        }
    }
    let n = pairs.len() as u64;
    push_sub(subs, Sub::new(
        "opcode-256",
        n * 8,
        &format!("for {} (header parameters, configuration) pairs [48-element pairwise covering set of min_inst {{1,2,4,255}} x max_ops {{1,2,4,255}} x line_base {{-128,-5,-1,0,1,127}} x line_range {{1,2,14,255}} x opcode_base {{1,2,4,10,13,14,20,255}} x default_is_stmt x 8 configurations{}]: every opcode byte 0..=255 as `set_address; [advance_pc 1;] <op with boundary operands>; copy; end_sequence` (standard opcodes with operands {{0,1,0x7f,0x80,2^32,2^64-1}} resp. signed boundaries, unknown standard opcodes with their declared operand counts, opcode 0 with every extended sub-opcode 0..=255 and payload variants incl. surplus, short and zero lengths); 32 opcode values per case", n, if tier == Tier::Thorough { "; plus the covering set x all 64 configurations; plus the full 6144-element parameter product x 8 configurations" } else { "" }),
        move |ctx, i| {
            // opcode block is the high digit so that the heavy block (opcode 0 with
            // its 256 sub-opcodes) is spread over all workers
            let (p, c) = pairs[(i % n) as usize];
            let blk = i / n;
            let h = mk_hdr(p, c);
            let img = h.image();
            let mut progs = vec![];
            for b in blk * 32..(blk + 1) * 32 {
                progs.clear();
                sweep_programs(&h, b as u8, &mut progs);
                for (k, body) in progs.iter().enumerate() {
                    check_program(ctx, &Case { h: &h, img: &img, body, junk: 0, trailer: &[], comp_dir: None, comp_name: None, depth: if k == 0 && b % 32 == 0 { 3 } else { 2 }, sweep_op: Some(b as u8) });
                }
            }
        },
    ));
}

fn sub_headers(tier: Tier, subs: &mut Vec<Sub>) {
    let params: Vec<Params> = tier.pick(covering_params(), full_params());
    let cfgs = all_cfgs();
    let np = params.len() as u64;
    let nc = cfgs.len() as u64;
    push_sub(subs, Sub::new(
        "header-params",
        np * nc * 4,
        &format!("{} header parameter tuples ({}) x all 64 configurations (version 2-5 x DWARF32/64 x address size 1/2/4/8 x byte order) x 4 layouts (unit offset 0/7, trailing bytes after the unit, 0/3 padding bytes inside header_length, comp_dir/comp_name given or not): every header accessor, the tables, and three fixed programs", np, if tier == Tier::Thorough { "full product of the DESIGN value sets" } else { "pairwise covering set" }),
        move |ctx, i| {
            let mut m = Mix(i);
            let layout = m.take(4);
            let c = *m.pick(&cfgs);
            let p = *m.pick(&params);
            let mut h = mk_hdr(p, c);
            h.pad = if layout & 1 == 1 { 3 } else { 0 };
            let img = h.image();
            let junk = if layout & 2 == 2 { 7 } else { 0 };
            // trailing bytes: a copy and an end_sequence that must not be executed
            let trailer: &[u8] = if layout >= 1 { &[0x01, 0x00, 0x01, 0x01] } else { &[] };
            let (cd, cn): (Option<&[u8]>, Option<&[u8]>) = if layout % 3 == 0 { (Some(b"/comp"), Some(b"main.c")) } else if layout == 1 { (None, Some(b"m.c")) } else { (None, None) };
            let a = base_addr(&h);
            let progs: Vec<Vec<Ins>> = vec![
                vec![],
                vec![Ins::SetAddress { addr: a, surplus: 0 }, Ins::Copy, Ins::Special(255), Ins::AdvancePc(3), Ins::Special(h.opcode_base), Ins::ConstAddPc, Ins::Copy, Ins::AdvancePc(2), Ins::EndSequence { surplus: 0 }],
                vec![Ins::SetAddress { addr: a, surplus: 0 }, Ins::SetFile(2), Ins::SetColumn(4), Ins::NegateStmt, Ins::SetDiscriminator { v: 3, surplus: 0 }, Ins::Copy, Ins::FixedAdvancePc(0x102), Ins::SetBasicBlock, Ins::Copy, Ins::EndSequence { surplus: 0 }, Ins::SetAddress { addr: a - 8, surplus: 0 }, Ins::Copy, Ins::EndSequence { surplus: 0 }],
            ];
            for (k, p) in progs.iter().enumerate() {
                let body = enc_prog(&h, p);
                check_program(ctx, &Case { h: &h, img: &img, body: &body, junk, trailer, comp_dir: cd, comp_name: cn, depth: if k == 0 { 3 } else { 2 }, sweep_op: None });
            }
        },
    ));
}

// ---- tables

fn sub_tables_v4(_tier: Tier, subs: &mut Vec<Sub>) {
    // dirs: lists of 0..=3 names from 2 names; files: lists of 0..=3 entries from 5 entry shapes
    let dnames: Vec<&'static [u8]> = vec![b"inc", b"/usr/include/x"];
    let fshapes: Vec<FileV4> = vec![
        FileV4 { name: b"a.c".to_vec(), dir: 0, mtime: 0, len: 0 },
        FileV4 { name: b"b.h".to_vec(), dir: 1, mtime: 0x7f, len: 0x80 },
        FileV4 { name: b"a.c".to_vec(), dir: 2, mtime: u64::MAX, len: 1 << 32 },
        FileV4 { name: b"/abs/c.h".to_vec(), dir: 3, mtime: 1, len: u64::MAX },
        FileV4 { name: b"d".to_vec(), dir: 0x80, mtime: 0x3fff, len: 0x4000 },
    ];
    let nd = seq_count(2, 0, 3);
    let nf = seq_count(5, 0, 3);
    let cfgs: Vec<Cfg> = all_cfgs().into_iter().filter(|c| c.version <= 4 && c.addr >= 4).collect();
    let nc = cfgs.len() as u64;
    push_sub(subs, Sub::new(
        "tables-v2-4",
        nd * nf * nc,
        "version 2-4 headers: every include_directories list of length 0..=3 over 2 names x every file_names list of length 0..=3 over 5 entries (duplicate names, directory indices 0..0x80, LEB boundary timestamps/sizes up to 2^64-1) x versions 2,3,4 x DWARF32/64 x address size 4/8 x byte order; tables, index conventions directory(k)/file(k), define_file appends",
        move |ctx, i| {
            let mut m = Mix(i);
            let c = *m.pick(&cfgs);
            let fi = m.take(nf);
            let di = m.take(nd);
            let dirs: Vec<Vec<u8>> = seq_decode(2, 0, 3, di).iter().map(|&k| dnames[k].to_vec()).collect();
            let files: Vec<FileV4> = seq_decode(5, 0, 3, fi).iter().map(|&k| fshapes[k].clone()).collect();
            let mut h = mk_hdr(seq_params()[0], c);
            h.tables = Tables::V4 { dirs, files };
            let img = h.image();
            let a = base_addr(&h);
            let prog = vec![Ins::SetAddress { addr: a, surplus: 0 }, Ins::Copy, Ins::DefineFile { f: FileV4 { name: b"gen.c".to_vec(), dir: 1, mtime: 5, len: 6 }, surplus: 0 }, Ins::SetFile(3), Ins::Special(0x20), Ins::EndSequence { surplus: 0 }];
            let body = enc_prog(&h, &prog);
            let with = i % 2 == 0;
            check_program(ctx, &Case { h: &h, img: &img, body: &body, junk: 0, trailer: &[], comp_dir: if with { Some(b"/cd") } else { None }, comp_name: if with { Some(b"unit.c") } else { None }, depth: 3, sweep_op: None });
            ctx.outcome("tables:v2-4");
        },
    ));
}

const CTS: [u64; 7] = [LNCT_DIRECTORY_INDEX, LNCT_TIMESTAMP, LNCT_SIZE, LNCT_MD5, LNCT_LLVM_SOURCE, 0x2002, 0x10001];
const PATH_FORMS: [u64; 8] = [FORM_STRING, FORM_LINE_STRP, FORM_STRP, FORM_STRX, FORM_STRX1, FORM_STRX2, FORM_STRX3, FORM_STRX4];
const ALL_FORMS: [u64; 16] = [FORM_STRING, FORM_LINE_STRP, FORM_STRP, FORM_STRX, FORM_STRX1, FORM_STRX2, FORM_STRX3, FORM_STRX4, FORM_UDATA, FORM_DATA1, FORM_DATA2, FORM_DATA4, FORM_DATA8, FORM_DATA16, FORM_BLOCK, FORM_BLOCK1];

/// All entry-format vectors of length 1..=maxlen with exactly one path column.
fn format_vectors(maxlen: usize) -> Vec<Vec<(u64, u64)>> {
    let paths: Vec<(u64, u64)> = PATH_FORMS.iter().map(|&f| (LNCT_PATH, f)).collect();
    let others: Vec<(u64, u64)> = CTS.iter().flat_map(|&ct| ALL_FORMS.iter().map(move |&f| (ct, f))).collect();
    let mut out = vec![];
    for len in 1..=maxlen {
        for pos in 0..len {
            let nother = (others.len() as u64).pow(len as u32 - 1);
            for &p in &paths {
                for mut oi in 0..nother {
                    let mut v = vec![];
                    for k in 0..len {
                        if k == pos {
                            v.push(p);
                        } else {
                            v.push(others[(oi % others.len() as u64) as usize]);
                            oi /= others.len() as u64;
                        }
                    }
                    out.push(v);
                }
            }
        }
    }
    out
}

fn entries_for(fmt: &[(u64, u64)], n: usize) -> Vec<Vec<Val>> {
    (0..n).map(|e| fmt.iter().enumerate().map(|(k, &(_, form))| default_val(form, (e * 5 + k) as u64)).collect()).collect()
}

fn sub_tables_v5(tier: Tier, subs: &mut Vec<Sub>) {
    let maxlen = tier.pick(2usize, 3usize);
    let vecs = std::rc::Rc::new(format_vectors(maxlen));
    let nv = vecs.len() as u64;
    let per = tier.pick(1u64, 32u64);
    let ncase = nv.div_ceil(per) * 8;
    let v2 = vecs.clone();
    push_sub(subs, Sub::new(
        "tables-v5-formats",
        ncase,
        &format!("version 5 headers: every entry-format vector of length 1..={} with exactly one DW_LNCT_path over content types {{path, directory_index, timestamp, size, MD5, LLVM_source, unknown 0x2002, unknown 0x10001}} x forms {{string, line_strp, strp, strx, strx1-4 (path: these only), udata, data1/2/4/8, data16, block, block1}} ({} vectors), used as file_name_entry_format (2 files) and as directory_entry_format (2 directories), x DWARF32/64 x byte order; fields whose form is outside the standard's classes for that content type are parsed but not compared", maxlen, nv),
        move |ctx, i| {
            let mut m = Mix(i);
            let big = m.flag();
            let fmt64 = m.flag();
            let as_dirs = m.flag();
            let blk = m.0;
            for vi in blk * per..((blk + 1) * per).min(nv) {
                let fmt = &v2[vi as usize];
                let c = Cfg { version: 5, fmt64, addr: if big { 4 } else { 8 }, big };
                let mut h = mk_hdr(seq_params()[0], c);
                let t = V5Table { fmt: fmt.clone(), entries: entries_for(fmt, 2) };
                let Tables::V5 { dirs, files } = default_tables(5) else { unreachable!() };
                h.tables = if as_dirs { Tables::V5 { dirs: t, files } } else { Tables::V5 { dirs, files: t } };
                let img = h.image();
                let a = base_addr(&h);
                let prog = vec![Ins::SetAddress { addr: a, surplus: 0 }, Ins::SetFile(0), Ins::Copy, Ins::Special(0x30), Ins::EndSequence { surplus: 0 }];
                let body = enc_prog(&h, &prog);
                check_program(ctx, &Case { h: &h, img: &img, body: &body, junk: 0, trailer: &[], comp_dir: Some(b"/ignored"), comp_name: Some(b"ignored.c"), depth: 3, sweep_op: None });
                ctx.outcome(if as_dirs { "tables:v5-dir-format" } else { "tables:v5-file-format" });
            }
        },
    ));
    // entry counts, incl. the empty format / empty table the standard allows
    push_sub(subs, Sub::new(
        "tables-v5-counts",
        9 * 9 * 4 * 2,
        "version 5 headers: directories count and file_names count each in {0,1,2,3,127,128,129,300} (one- and two-byte ULEB128 counts) under 2 formats each, plus file_name_entry_format_count = 0 with file_names_count = 0 (allowed by DWARF 5 section 6.2.4 item 22), x DWARF32/64 x byte order",
        move |ctx, i| {
            let mut m = Mix(i);
            let big = m.flag();
            let fmt64 = m.flag();
            let fsel = m.take(2);
            const COUNTS: [u64; 9] = [0, 1, 2, 3, 4, 127, 128, 129, 300]; // 4 = "no format, no entries"
            let nf = COUNTS[m.take(9) as usize];
            let nd = COUNTS[m.take(9) as usize];
            let c = Cfg { version: 5, fmt64, addr: 8, big };
            let mut h = mk_hdr(seq_params()[0], c);
            let dfmt: Vec<(u64, u64)> = if fsel == 0 { vec![(LNCT_PATH, FORM_LINE_STRP)] } else { vec![(0x2002, FORM_DATA2), (LNCT_PATH, FORM_STRING)] };
            let ffmt: Vec<(u64, u64)> = if fsel == 0 { vec![(LNCT_PATH, FORM_LINE_STRP), (LNCT_DIRECTORY_INDEX, FORM_UDATA), (LNCT_MD5, FORM_DATA16)] } else { vec![(LNCT_TIMESTAMP, FORM_DATA4), (LNCT_PATH, FORM_STRING), (LNCT_SIZE, FORM_DATA8), (LNCT_LLVM_SOURCE, FORM_STRING), (LNCT_DIRECTORY_INDEX, FORM_DATA1)] };
            // count 4 = "no format, no entries"
            let dirs = if nd == 4 { V5Table { fmt: vec![(LNCT_PATH, FORM_STRING)], entries: vec![vec![Val::Str(b"/cd".to_vec())]] } } else { V5Table { entries: entries_for(&dfmt, nd as usize), fmt: dfmt } };
            let files = if nf == 4 { V5Table::default() } else { V5Table { entries: entries_for(&ffmt, nf as usize), fmt: ffmt } };
            if nf == 4 {
                ctx.outcome("tables:v5-empty-file-format");
            }
            h.tables = Tables::V5 { dirs, files };
            let img = h.image();
            let prog = vec![Ins::SetAddress { addr: 0x1000, surplus: 0 }, Ins::Copy, Ins::EndSequence { surplus: 0 }];
            let body = enc_prog(&h, &prog);
            check_program(ctx, &Case { h: &h, img: &img, body: &body, junk: 0, trailer: &[], comp_dir: None, comp_name: None, depth: 3, sweep_op: None });
            ctx.outcome("tables:v5-counts");
        },
    ));
}

// ---- raw bytes (any-input clause)

fn sub_raw(tier: Tier, subs: &mut Vec<Sub>) {
    let thorough = tier == Tier::Thorough;
    let cover = covering_params();
    let cfgs = sweep_cfgs();
    // quick: 6 headers; thorough: 40 headers (covering set entries 0..40, configuration rotating)
    let nh = tier.pick(12usize, 40usize);
    let pairs: Vec<(Params, Cfg)> = (0..nh).map(|k| if thorough { (cover[k], cfgs[k % 8]) } else { (cover[(k * 4 + k / 2) % 48], cfgs[k % 8]) }).collect();
    let n = pairs.len() as u64;
    push_sub(subs, Sub::new(
        "raw-bodies",
        n * 2 * 257,
        &format!("every byte string of length 0..={} as the whole program body, and the same after `set_address (max-0x10)`, under {} headers of the covering set (configurations rotating): rows never decrease within a sequence and never exceed the address size; bodies the reference decoder finds well-formed are also compared row by row; index = first byte (256 = empty body)", tier.pick(2, 3), n),
        move |ctx, i| {
            let mut m = Mix(i);
            let b0 = m.take(257);
            let high = m.flag();
            let (p, c) = pairs[m.0 as usize];
            let h = mk_hdr(p, c);
            let img = h.image();
            let mut prefix = Enc::new(h.big);
            if high {
                enc_ins(&mut prefix, &h, &Ins::SetAddress { addr: h.addr_mask() - 0x10, surplus: 0 });
            }
            let pl = prefix.buf.len();
            let mut body = prefix.buf.clone();
            let one = |ctx: &mut Ctx, body: &[u8]| {
                check_program(ctx, &Case { h: &h, img: &img, body, junk: 0, trailer: &[], comp_dir: None, comp_name: None, depth: 0, sweep_op: None });
            };
            if b0 == 256 {
                one(ctx, &body);
                return;
            }
            body.push(b0 as u8);
            one(ctx, &body);
            for b1 in 0..=255u8 {
                body.truncate(pl + 1);
                body.push(b1);
                one(ctx, &body);
                if thorough {
                    for b2 in 0..=255u8 {
                        body.truncate(pl + 2);
                        body.push(b2);
                        one(ctx, &body);
                    }
                }
            }
        },
    ));
}

/// Generous no-progress timeout: one case is at most a few hundred ms of CPU, but
/// the machine may be heavily oversubscribed by parallel sessions.
fn push_sub(subs: &mut Vec<Sub>, s: Sub) {
    subs.push(s.timeout(1800));
}

pub fn def(tier: Tier) -> CheckDef {
    let mut subs = vec![];
    sub_headers(tier, &mut subs);
    sub_opcodes(tier, &mut subs);
    sub_sequences(tier, &mut subs);
    sub_tombstone(tier, &mut subs);
    sub_boundary(Tier::Thorough, &mut subs); // cheap: thorough bounds in both tiers
    sub_tables_v4(tier, &mut subs);
    sub_tables_v5(tier, &mut subs);
    sub_raw(tier, &mut subs);
    let mut required: Vec<String> = [
        "hdr:v2", "hdr:v3", "hdr:v4", "hdr:v5", "class:well-formed", "class:tombstone", "class:malformed", "class:latitude", "ill-formed:address-overflow", "ill-formed:line-underflow", "ill-formed:line-overflow", "ill-formed:gimli-err", "malformed:err", "anyinput:checked",
        "surplus:skipped", "rows:unterminated-tail", "rows:op_index-nonzero", "define_file:appended", "seq:compared", "seq:resumed", "seq:bare-end", "seq:multi", "tables:v2-4", "tables:v5-file-format", "tables:v5-dir-format", "tables:v5-counts", "tables:v5-empty-file-format",
        "ins:special", "ins:copy", "ins:advance_pc", "ins:advance_line", "ins:set_file", "ins:set_column", "ins:negate_stmt", "ins:set_basic_block", "ins:const_add_pc", "ins:fixed_advance_pc", "ins:set_prologue_end", "ins:set_epilogue_begin", "ins:set_isa", "ins:unknown_std0", "ins:unknown_std1",
        "ins:unknown_stdN", "ins:end_sequence", "ins:set_address", "ins:define_file", "ins:set_discriminator", "ins:unknown_ext",
    ]
    .iter()
    .map(|s| s.to_string())
    .collect();
    for b in 0..=255u32 {
        required.push(format!("op:{:02x}", b));
    }
    CheckDef {
        level: "exploration",
        rule: "exhaustive enumeration of the program/header spaces stated per sub-space in coverage.bounds; each case is a distinct (header, configuration, body) triple by construction of the index; evaluations = programs executed on gimli (each up to 3 passes: rows(), instructions(), sequences()+resume_from()); non-trivial = programs the independent reference decoder+state machine (128-bit arithmetic) classifies as well-formed (or tombstone-extended) and whose every row, instruction and sequence was compared; the remaining programs (ill-formed: register overflow/underflow, malformed: truncated, latitude: LEB operands > 64 bit, over-long LEBs, set_address with surplus bytes) are checked against the any-input clause only".into(),
        assumptions: vec![
            "reference model (gv-line/model.rs) transcribes DWARF 5 section 6.2 (and the version 2-4 header layouts); opcode numbers and form/content-type codes are copied from the standard's tables, not from gimli".into(),
            "the opcode set is version-independent (DW_LNS 10-12 and DW_LNE_set_discriminator are honoured in version 2/3 programs when below opcode_base, as every producer/consumer does); standard_opcode_lengths entries for opcodes 1-12 carry the standard's operand counts".into(),
            "a program whose address register would exceed the address size, or whose line register would leave 0..2^64-1, is ill-formed: rows are not compared, and a panic there is left to C01".into(),
            "DW_LNE_set_address operands lower than the current address or >= 2^(8*address_size)-2 are tombstones (ill-formed by the standard): compared against the state machine extended with the suppression rule gimli documents in LineRow::execute (site tombstone-rows)".into(),
            "surplus bytes inside a known extended opcode's length may be skipped (rows then compared) or rejected with an error; set_address with surplus bytes is not compared".into(),
            "any-input clause is evaluated on the rows as observed by a consumer: a sequence is a maximal run of rows up to and including an end_sequence row".into(),
            "the llvm-dwarfdump corpus clause of the quantifier is a different family and is not decided here".into(),
        ],
        subs,
        required_outcomes: required,
    }
}
