#!/usr/bin/env python3
"""Non-deciding audit of gv-line's reference model against llvm-dwarfdump.

  GV_LINE_AUDIT=/tmp/audit/a VERIF_ROOT=/verif gv-line C04 quick
  python3 audit.py /tmp/audit/a.*

Each input line is `section-hex <TAB> model rows`. The section is wrapped into an
ELF object (objcopy --add-section) and `llvm-dwarfdump --debug-line` rows are
compared field by field. A disagreement means "oracle suspect", never VIOLATION.
"""
import subprocess, sys, tempfile, os, re

def main():
    tmp = tempfile.mkdtemp()
    src = os.path.join(tmp, "e.c"); obj = os.path.join(tmp, "e.o"); out = os.path.join(tmp, "o.o"); sec = os.path.join(tmp, "s.bin")
    open(src, "w").write("int x;\n")
    subprocess.check_call(["gcc", "-c", src, "-o", obj])
    n = bad = skipped = 0
    for path in sys.argv[1:]:
        for line in open(path):
            hexs, _, rows = line.rstrip("\n").partition("\t")
            open(sec, "wb").write(bytes.fromhex(hexs))
            subprocess.check_call(["objcopy", "--add-section", ".debug_line=" + sec, obj, out])
            r = subprocess.run(["llvm-dwarfdump", "--debug-line", out], capture_output=True, text=True)
            txt = r.stdout + r.stderr
            if "warning" in txt or "error" in txt:
                skipped += 1
                continue
            got = []
            for l in r.stdout.splitlines():
                m = re.match(r"^0x([0-9a-f]+)\s+(\d+)\s+(\d+)\s+(\d+)\s+(\d+)\s+(\d+)\s*(.*)$", l)
                if m:
                    fl = m.group(7).split()
                    flags = "".join(c for c, name in (("S", "is_stmt"), ("B", "basic_block"), ("P", "prologue_end"), ("G", "epilogue_begin"), ("E", "end_sequence")) if name in fl)
                    got.append("%x,%s,%s,%s,%s,%s,%s" % (int(m.group(1), 16), m.group(2), m.group(3), m.group(4), m.group(5), m.group(6), flags))
            want = rows.split() if rows else []
            # llvm-dwarfdump prints line/column/file/isa/discriminator as 32/16/8-bit fields: skip programs with wider values
            if any(int(x) > 0xff for w in want for x in w.split(",")[4:5]) or any(int(x) > 0xffff for w in want for x in w.split(",")[2:3]) or any(int(x) > 0x7fffffff for w in want for x in (w.split(",")[1], w.split(",")[3], w.split(",")[5])):
                skipped += 1
                continue
            n += 1
            if got != want:
                bad += 1
                if bad <= 10:
                    print("ORACLE SUSPECT", hexs, "\n  model:", want, "\n  llvm: ", got)
    print("audited %d programs, %d disagreements, %d skipped (llvm warnings / narrow llvm fields)" % (n, bad, skipped))

main()
