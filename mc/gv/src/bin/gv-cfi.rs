//! C05 (CIE/FDE decoding and address lookup), C06 (unwind rows equal DWARF
//! call-frame semantics), C14 (written frame tables read back).
#[path = "cfi/enc.rs"]
mod enc;
#[path = "cfi/glue.rs"]
mod glue;
#[path = "cfi/model.rs"]
mod model;
#[path = "cfi/scan.rs"]
mod scan;

#[path = "cfi/c05.rs"]
mod c05;
#[path = "cfi/c05b.rs"]
mod c05b;
#[path = "cfi/c05c.rs"]
mod c05c;
#[path = "cfi/c06.rs"]
mod c06;
#[path = "cfi/c14.rs"]
mod c14;

fn main() {
    mcx::engine::main_promoted(&["C14"], |prop, tier| match prop {
        "C05" => Some(c05::def(tier)),
        "C06" => Some(c06::def(tier)),
        "C14" => Some(c14::def(tier)),
        _ => None,
    })
}
