//! C20 group 5: `Dwarf::unit` with an `AbbreviationsCache` populated under any
//! strategy (or not at all) gives exactly the result an uncached `Dwarf` gives.
use super::dw::*;
use gimli::{AbbreviationsCacheStrategy, DebugInfoOffset, Dwarf, EndianSlice, LittleEndian, SectionId, UnitHeader};
use mcx::enc::Enc;
use mcx::{guard, Ctx, Sub, Tier};
use std::sync::Arc;

type R<'a> = EndianSlice<'a, LittleEndian>;

const N_CHOICES: u64 = 6;
const CHOICE_NAMES: [&str; 6] = ["T0", "T1", "T2", "DUP(duplicate-code)", "INVALID(past-end)", "MID(inside-T0)"];
const HISTORIES: [&[u8]; 7] = [&[], &[1], &[2], &[1, 2], &[2, 1], &[1, 1], &[2, 2]];

fn strategy(s: u8) -> AbbreviationsCacheStrategy {
    if s == 1 {
        AbbreviationsCacheStrategy::Duplicates
    } else {
        AbbreviationsCacheStrategy::All
    }
}

fn hist_name(h: &[u8]) -> String {
    if h.is_empty() {
        return "no-populate".into();
    }
    h.iter().map(|&s| if s == 1 { "populate(Duplicates)" } else { "populate(All)" }).collect::<Vec<_>>().join(";")
}

/// `.debug_abbrev` with four tables; returns (bytes, offset of each choice).
fn abbrev_section() -> (Vec<u8>, [u64; 6]) {
    let t0 = AbbrevTable::new().decl(1, DW_TAG_COMPILE_UNIT, false, &[(DW_AT_NAME, DW_FORM_STRING)]).end();
    let t1 = AbbrevTable::new()
        .decl(1, DW_TAG_COMPILE_UNIT, false, &[(DW_AT_PRODUCER, DW_FORM_STRING), (DW_AT_LANGUAGE, DW_FORM_DATA2)])
        .decl(2, DW_TAG_VARIABLE, false, &[])
        .end();
    let t2 = AbbrevTable::new().decl(1, DW_TAG_PARTIAL_UNIT, false, &[(DW_AT_LOW_PC, DW_FORM_ADDR)]).end();
    let td = AbbrevTable::new()
        .decl(1, DW_TAG_COMPILE_UNIT, false, &[(DW_AT_NAME, DW_FORM_STRING)])
        .decl(1, DW_TAG_COMPILE_UNIT, false, &[(DW_AT_PRODUCER, DW_FORM_STRING)])
        .end();
    let mut b = vec![];
    let mut offs = [0u64; 6];
    for (i, t) in [t0, t1, t2, td].iter().enumerate() {
        offs[i] = b.len() as u64;
        b.extend_from_slice(t);
    }
    offs[4] = b.len() as u64 + 3;
    offs[5] = 1;
    (b, offs)
}

fn die_for(choice: usize, i: usize, addr_size: u8) -> Vec<u8> {
    let mut d = Enc::new(false);
    d.uleb(1);
    match choice {
        1 => {
            d.cstr(format!("p{}", i).as_bytes()).u16(i as u16 + 1);
        }
        2 => {
            d.addr(0x1000 * (i as u64 + 1), addr_size);
        }
        _ => {
            d.cstr(format!("u{}", i).as_bytes());
        }
    }
    d.buf
}

struct Case {
    abbrev: Vec<u8>,
    info: Vec<u8>,
    types: Vec<u8>,
    /// (offset in .debug_info, abbrev offset) of each well-formed unit, in order
    units: Vec<(usize, u64)>,
    /// number of leading units the units() iterator reaches before the broken header
    iterable: usize,
    type_unit: Option<u64>,
}

fn build(choices: &[usize], tchoice: usize, broken_after_first: bool) -> Case {
    let (abbrev, offs) = abbrev_section();
    let mut info = vec![];
    let mut units = vec![];
    let mut iterable = choices.len();
    for (i, &c) in choices.iter().enumerate() {
        let version = if i % 2 == 0 { 4 } else { 5 };
        let addr_size = if i % 2 == 0 { 8 } else { 4 };
        units.push((info.len(), offs[c]));
        info.extend(unit(version, i == 2, addr_size, offs[c], None, &die_for(c, i, addr_size)));
        if i == 0 && broken_after_first {
            // a unit with an unsupported version: the headers iterator stops here
            info.extend(unit(9, false, 4, offs[0], None, &[1, b'x', 0]));
            iterable = 1;
        }
    }
    let (types, type_unit) = if tchoice < 6 {
        let hs = unit_header_size(4, false, true) as u64;
        (unit(4, false, 8, offs[tchoice], Some((0x1122334455667788, hs)), &die_for(tchoice, 9, 8)), Some(offs[tchoice]))
    } else {
        (vec![], None)
    };
    Case { abbrev, info, types, units, iterable, type_unit }
}

fn load<'a>(c: &'a Case) -> Dwarf<R<'a>> {
    Dwarf::load(|id| -> Result<R<'a>, ()> {
        Ok(EndianSlice::new(
            match id {
                SectionId::DebugAbbrev => &c.abbrev,
                SectionId::DebugInfo => &c.info,
                SectionId::DebugTypes => &c.types,
                _ => &[],
            },
            LittleEndian,
        ))
    })
    .unwrap()
}

/// Ok/Err + complete dump of a unit.
fn unit_result<'a>(d: &Dwarf<R<'a>>, h: UnitHeader<R<'a>>) -> String {
    match d.unit(h) {
        Err(e) => format!("Err({:?})", e),
        Ok(u) => {
            let mut s = format!("Ok({:?})", u);
            let mut c = u.entries();
            loop {
                match c.next_dfs() {
                    Ok(Some(e)) => s.push_str(&format!(" DIE{:?}", e)),
                    Ok(None) => break,
                    Err(e) => {
                        s.push_str(&format!(" DIE-Err({:?})", e));
                        break;
                    }
                }
            }
            s
        }
    }
}

fn headers<'a>(d: &Dwarf<R<'a>>, c: &Case) -> Vec<(String, UnitHeader<R<'a>>)> {
    let mut v = vec![];
    for (i, &(off, _)) in c.units.iter().enumerate() {
        if let Ok(h) = d.unit_header(DebugInfoOffset(off)) {
            v.push((format!("unit#{}@{:#x}", i, off), h));
        }
    }
    let mut it = d.units();
    let mut k = 0;
    while let Ok(Some(h)) = it.next() {
        v.push((format!("units()#{}", k), h));
        k += 1;
    }
    let mut it = d.type_units();
    while let Ok(Some(h)) = it.next() {
        v.push(("type-unit".into(), h));
    }
    v
}

fn cache_case(ctx: &mut Ctx, n: usize, mut idx: u64) {
    let mut choices = vec![];
    for _ in 0..n {
        choices.push((idx % N_CHOICES) as usize);
        idx /= N_CHOICES;
    }
    let tchoice = (idx % 7) as usize;
    idx /= 7;
    let broken = idx % 2 == 1;
    let case = build(&choices, tchoice, broken);
    let render = |h: &[u8]| {
        format!(
            "units use abbreviation tables [{}]{}{}; .debug_abbrev={} .debug_info={} .debug_types={}; {}",
            choices.iter().map(|&c| CHOICE_NAMES[c]).collect::<Vec<_>>().join(","),
            if broken { " (a unit with version 9 follows the first unit)" } else { "" },
            if tchoice < 6 { format!(", type unit uses {}", CHOICE_NAMES[tchoice]) } else { String::new() },
            mcx::hex(&case.abbrev),
            mcx::hex(&case.info),
            mcx::hex(&case.types),
            hist_name(h)
        )
    };
    // offsets the populate pass sees, with multiplicity
    let seen: Vec<u64> = case.units[..case.iterable].iter().map(|u| u.1).collect();
    for h in HISTORIES.iter() {
        let r = guard(|| {
            let fresh = load(&case);
            let mut cached = load(&case);
            for &s in h.iter() {
                cached.populate_abbreviations_cache(strategy(s));
            }
            let hs = headers(&fresh, &case);
            let mut bad = vec![];
            let (mut oks, mut errs, mut hits, mut misses) = (0u64, 0u64, 0u64, 0u64);
            for (name, hd) in &hs {
                let want = unit_result(&fresh, *hd);
                let got = unit_result(&cached, *hd);
                if want.starts_with("Ok") {
                    oks += 1;
                } else {
                    errs += 1;
                }
                if got != want {
                    bad.push(("Dwarf::unit-with-cache==Dwarf::unit-without-cache", "cache-dependent-result", format!("{}: with cache {} ; without cache {}", name, got, want)));
                    continue;
                }
                // Is the cache actually consulted? (documented strategy semantics)
                if let (Ok(a1), Ok(a2)) = (cached.abbreviations(hd), cached.abbreviations(hd)) {
                    let shared = Arc::ptr_eq(&a1, &a2);
                    let off = hd.debug_abbrev_offset().0 as u64;
                    let count = seen.iter().filter(|&&o| o == off).count();
                    let expect = match h.last() {
                        None => false,
                        Some(1) => count >= 2,
                        _ => count >= 1,
                    };
                    if shared {
                        hits += 1;
                    } else {
                        misses += 1;
                    }
                    if shared != expect {
                        bad.push((
                            "strategy-caches-the-documented-offsets",
                            "wrong-cache-population",
                            format!("{}: abbreviations at offset {:#x} (used by {} iterable units) served from the cache: {}, documented: {}", name, off, count, shared, expect),
                        ));
                    }
                }
            }
            (hs.len() as u64, bad, oks, errs, hits, misses)
        });
        match r {
            Err(p) => ctx.fail_panic("Dwarf::unit", &p, render(h)),
            Ok((nh, bad, oks, errs, hits, misses)) => {
                ctx.eval(2 * nh);
                ctx.transitions += nh + h.len() as u64;
                ctx.traces += 1;
                for (site, kind, detail) in bad {
                    ctx.fail("Dwarf::unit", site, kind, format!("{}: {}", render(h), detail));
                }
                ctx.outcome_n("cache:unit-ok", oks);
                ctx.outcome_n("cache:unit-err", errs);
                let hn = match h.last() {
                    None => "none",
                    Some(1) => "Duplicates",
                    _ => "All",
                };
                ctx.outcome_n(&format!("cache:{}:served-from-cache", hn), hits);
                ctx.outcome_n(&format!("cache:{}:parsed-on-demand", hn), misses);
                ctx.outcome(&format!("cache:history:{}", hist_name(h)));
            }
        }
    }
    ctx.nontriv(1);
    if broken {
        ctx.outcome("cache:unit-iteration-stops-at-broken-header");
    }
    if choices.iter().any(|&c| c == 3) {
        ctx.outcome("cache:duplicate-code-table-used");
    }
    if choices.iter().any(|&c| c == 4) {
        ctx.outcome("cache:invalid-offset-used");
    }
    if ctx.want_sample() && idx == 0 && choices.len() > 1 && choices[0] == choices[1] {
        ctx.sample(render(HISTORIES[3]));
    }
}

pub fn subs(_cli_tier: Tier) -> Vec<Sub> {
    let maxn: usize = 4; // 4 units cost < 1 s: both tiers
    let mut v = vec![];
    for n in 1..=maxn {
        v.push(Sub::new(
            &format!("abbrev-cache-{}-units", n),
            N_CHOICES.pow(n as u32) * 7 * 2,
            &format!(
                "{} units, every assignment of the 6 abbreviation offsets (3 valid tables, a table with a duplicate code, an offset past the end, an offset inside a table) to the units x type unit in .debug_types using one of the 6 offsets or absent x a broken unit header after the first unit or not; for each, 7 cache histories (no populate, Duplicates, All, and every pair of populates): Dwarf::unit Ok/Err and the full unit dump for every header (by offset, by iteration, type unit) equal the uncached Dwarf's",
                n
            ),
            move |ctx, i| cache_case(ctx, n, i),
        ));
    }
    v
}

pub fn required() -> Vec<String> {
    let mut v: Vec<String> = [
        "cache:unit-ok",
        "cache:unit-err",
        "cache:Duplicates:served-from-cache",
        "cache:Duplicates:parsed-on-demand",
        "cache:All:served-from-cache",
        "cache:none:parsed-on-demand",
        "cache:unit-iteration-stops-at-broken-header",
        "cache:duplicate-code-table-used",
        "cache:invalid-offset-used",
    ]
    .iter()
    .map(|s| s.to_string())
    .collect();
    for h in HISTORIES.iter() {
        v.push(format!("cache:history:{}", hist_name(h)));
    }
    v
}
