//! Byte encoders for the small DWARF inputs of the C20 check. Everything is
//! written with `mcx::enc::Enc`; constants are transcribed from the DWARF 5
//! standard (section 7) and the LSB eh_frame description, never taken from
//! gimli.
#![allow(dead_code)]
use mcx::enc::Enc;

// ---------------------------------------------------------------------------
// Call frame instructions (DWARF 5 section 7.24, table 7.29)

pub struct Cfa(pub Enc);

impl Cfa {
    pub fn new() -> Cfa {
        Cfa(Enc::new(false))
    }
    pub fn bytes(&self) -> &[u8] {
        &self.0.buf
    }
    pub fn nop(mut self) -> Self {
        self.0.u8(0x00);
        self
    }
    /// DW_CFA_advance_loc (high 2 bits 0x1, low 6 bits delta)
    pub fn advance(mut self, d: u8) -> Self {
        assert!(d < 64);
        self.0.u8(0x40 | d);
        self
    }
    /// DW_CFA_offset (high 2 bits 0x2, low 6 bits register), ULEB factored offset
    pub fn offset(mut self, reg: u8, off: u64) -> Self {
        assert!(reg < 64);
        self.0.u8(0x80 | reg);
        self.0.uleb(off);
        self
    }
    /// DW_CFA_restore (high 2 bits 0x3)
    pub fn restore(mut self, reg: u8) -> Self {
        assert!(reg < 64);
        self.0.u8(0xc0 | reg);
        self
    }
    /// DW_CFA_set_loc 0x01, address
    pub fn set_loc(mut self, addr: u64, addr_size: u8) -> Self {
        self.0.u8(0x01);
        self.0.addr(addr, addr_size);
        self
    }
    /// DW_CFA_advance_loc1 0x02
    pub fn advance1(mut self, d: u8) -> Self {
        self.0.u8(0x02);
        self.0.u8(d);
        self
    }
    /// DW_CFA_offset_extended 0x05
    pub fn offset_ext(mut self, reg: u64, off: u64) -> Self {
        self.0.u8(0x05);
        self.0.uleb(reg);
        self.0.uleb(off);
        self
    }
    /// DW_CFA_restore_extended 0x06
    pub fn restore_ext(mut self, reg: u64) -> Self {
        self.0.u8(0x06);
        self.0.uleb(reg);
        self
    }
    /// DW_CFA_undefined 0x07
    pub fn undefined(mut self, reg: u64) -> Self {
        self.0.u8(0x07);
        self.0.uleb(reg);
        self
    }
    /// DW_CFA_same_value 0x08
    pub fn same_value(mut self, reg: u64) -> Self {
        self.0.u8(0x08);
        self.0.uleb(reg);
        self
    }
    /// DW_CFA_register 0x09
    pub fn register(mut self, a: u64, b: u64) -> Self {
        self.0.u8(0x09);
        self.0.uleb(a);
        self.0.uleb(b);
        self
    }
    /// DW_CFA_remember_state 0x0a
    pub fn remember(mut self) -> Self {
        self.0.u8(0x0a);
        self
    }
    /// DW_CFA_restore_state 0x0b
    pub fn restore_state(mut self) -> Self {
        self.0.u8(0x0b);
        self
    }
    /// DW_CFA_def_cfa 0x0c
    pub fn def_cfa(mut self, reg: u64, off: u64) -> Self {
        self.0.u8(0x0c);
        self.0.uleb(reg);
        self.0.uleb(off);
        self
    }
    /// DW_CFA_def_cfa_register 0x0d
    pub fn def_cfa_register(mut self, reg: u64) -> Self {
        self.0.u8(0x0d);
        self.0.uleb(reg);
        self
    }
    /// DW_CFA_def_cfa_offset 0x0e
    pub fn def_cfa_offset(mut self, off: u64) -> Self {
        self.0.u8(0x0e);
        self.0.uleb(off);
        self
    }
    /// DW_CFA_def_cfa_expression 0x0f, exprloc
    pub fn def_cfa_expression(mut self, e: &[u8]) -> Self {
        self.0.u8(0x0f);
        self.0.uleb(e.len() as u64);
        self.0.bytes(e);
        self
    }
    /// DW_CFA_expression 0x10
    pub fn expression(mut self, reg: u64, e: &[u8]) -> Self {
        self.0.u8(0x10);
        self.0.uleb(reg);
        self.0.uleb(e.len() as u64);
        self.0.bytes(e);
        self
    }
    /// DW_CFA_offset_extended_sf 0x11
    pub fn offset_ext_sf(mut self, reg: u64, off: i64) -> Self {
        self.0.u8(0x11);
        self.0.uleb(reg);
        self.0.sleb(off);
        self
    }
    /// DW_CFA_val_offset 0x14
    pub fn val_offset(mut self, reg: u64, off: u64) -> Self {
        self.0.u8(0x14);
        self.0.uleb(reg);
        self.0.uleb(off);
        self
    }
    /// DW_CFA_val_expression 0x16
    pub fn val_expression(mut self, reg: u64, e: &[u8]) -> Self {
        self.0.u8(0x16);
        self.0.uleb(reg);
        self.0.uleb(e.len() as u64);
        self.0.bytes(e);
        self
    }
    /// DW_CFA_GNU_args_size 0x2e
    pub fn args_size(mut self, n: u64) -> Self {
        self.0.u8(0x2e);
        self.0.uleb(n);
        self
    }
    pub fn raw(mut self, b: &[u8]) -> Self {
        self.0.bytes(b);
        self
    }
}

/// `.debug_frame` builder (32-bit format, CIE version 4, 8-byte addresses).
pub struct FrameSec {
    pub e: Enc,
}

impl FrameSec {
    pub fn new() -> FrameSec {
        FrameSec { e: Enc::new(false) }
    }
    /// Append a version 4 CIE; returns its section offset.
    pub fn cie(&mut self, code_align: u64, data_align: i64, ra: u64, insns: &[u8]) -> u64 {
        let off = self.e.len() as u64;
        let mut b = Enc::new(false);
        b.u32(0xffff_ffff); // CIE_id
        b.u8(4); // version
        b.u8(0); // augmentation ""
        b.u8(8); // address_size
        b.u8(0); // segment_selector_size
        b.uleb(code_align);
        b.sleb(data_align);
        b.uleb(ra);
        b.bytes(insns);
        while (b.len() + 4) % 8 != 0 {
            b.u8(0); // DW_CFA_nop padding
        }
        self.e.with_length(false, &b);
        off
    }
    /// Append an FDE for `cie`; returns its section offset.
    pub fn fde(&mut self, cie: u64, start: u64, len: u64, insns: &[u8]) -> u64 {
        let off = self.e.len() as u64;
        let mut b = Enc::new(false);
        b.u32(cie as u32); // CIE_pointer: offset in .debug_frame
        b.addr(start, 8);
        b.addr(len, 8);
        b.bytes(insns);
        while (b.len() + 4) % 8 != 0 {
            b.u8(0);
        }
        self.e.with_length(false, &b);
        off
    }
}

// ---------------------------------------------------------------------------
// .debug_abbrev / .debug_info (DWARF 5 section 7.5)

pub const DW_TAG_COMPILE_UNIT: u64 = 0x11;
pub const DW_TAG_PARTIAL_UNIT: u64 = 0x3c;
pub const DW_TAG_TYPE_UNIT: u64 = 0x41;
pub const DW_TAG_SUBPROGRAM: u64 = 0x2e;
pub const DW_TAG_VARIABLE: u64 = 0x34;
pub const DW_TAG_BASE_TYPE: u64 = 0x24;
pub const DW_TAG_MEMBER: u64 = 0x0d;
pub const DW_TAG_LEXICAL_BLOCK: u64 = 0x0b;
pub const DW_TAG_TYPEDEF: u64 = 0x16;
pub const DW_TAG_NAMESPACE: u64 = 0x39;
pub const DW_TAG_STRUCTURE_TYPE: u64 = 0x13;

pub const DW_AT_SIBLING: u64 = 0x01;
pub const DW_AT_NAME: u64 = 0x03;
pub const DW_AT_BYTE_SIZE: u64 = 0x0b;
pub const DW_AT_LOW_PC: u64 = 0x11;
pub const DW_AT_HIGH_PC: u64 = 0x12;
pub const DW_AT_LANGUAGE: u64 = 0x13;
pub const DW_AT_PRODUCER: u64 = 0x25;
pub const DW_AT_DATA_MEMBER_LOCATION: u64 = 0x38;
pub const DW_AT_DECL_FILE: u64 = 0x3a;
pub const DW_AT_DECL_LINE: u64 = 0x3b;
pub const DW_AT_EXTERNAL: u64 = 0x3f;
pub const DW_AT_TYPE: u64 = 0x49;
pub const DW_AT_DESCRIPTION: u64 = 0x5a;

pub const DW_FORM_ADDR: u64 = 0x01;
pub const DW_FORM_DATA2: u64 = 0x05;
pub const DW_FORM_DATA4: u64 = 0x06;
pub const DW_FORM_STRING: u64 = 0x08;
pub const DW_FORM_DATA1: u64 = 0x0b;
pub const DW_FORM_UDATA: u64 = 0x0f;
pub const DW_FORM_REF4: u64 = 0x13;
pub const DW_FORM_INDIRECT: u64 = 0x16;
pub const DW_FORM_FLAG_PRESENT: u64 = 0x19;

pub struct AbbrevTable(pub Enc);

impl AbbrevTable {
    pub fn new() -> AbbrevTable {
        AbbrevTable(Enc::new(false))
    }
    pub fn decl(mut self, code: u64, tag: u64, children: bool, attrs: &[(u64, u64)]) -> Self {
        self.0.uleb(code);
        self.0.uleb(tag);
        self.0.u8(children as u8); // DW_CHILDREN_yes = 1, DW_CHILDREN_no = 0
        for &(at, form) in attrs {
            self.0.uleb(at);
            self.0.uleb(form);
        }
        self.0.uleb(0);
        self.0.uleb(0);
        self
    }
    pub fn end(mut self) -> Vec<u8> {
        self.0.uleb(0);
        self.0.buf
    }
}

/// A unit in `.debug_info`/`.debug_types`: header + DIE bytes.
/// `version` 2..=5, `fmt64`, `addr_size`; `kind`: None = compile unit;
/// Some((signature, type_offset)) = type unit (DW_UT_type in v5, the
/// .debug_types layout in v4).
pub fn unit(version: u16, fmt64: bool, addr_size: u8, abbrev_off: u64, type_unit: Option<(u64, u64)>, dies: &[u8]) -> Vec<u8> {
    let mut b = Enc::new(false);
    b.u16(version);
    if version >= 5 {
        // unit_type, address_size, debug_abbrev_offset
        b.u8(if type_unit.is_some() { 0x02 } else { 0x01 }); // DW_UT_type / DW_UT_compile
        b.u8(addr_size);
        b.offset(abbrev_off, fmt64);
    } else {
        b.offset(abbrev_off, fmt64);
        b.u8(addr_size);
    }
    if let Some((sig, toff)) = type_unit {
        b.u64(sig);
        b.offset(toff, fmt64);
    }
    b.bytes(dies);
    let mut out = Enc::new(false);
    out.with_length(fmt64, &b);
    out.buf
}

/// Size of the header of `unit(..)` including the initial length.
pub fn unit_header_size(version: u16, fmt64: bool, type_unit: bool) -> usize {
    let off = if fmt64 { 8 } else { 4 };
    let il = if fmt64 { 12 } else { 4 };
    il + 2 + off + 1 + if version >= 5 { 1 } else { 0 } + if type_unit { 8 + off } else { 0 }
}

// ---------------------------------------------------------------------------
// .debug_line (DWARF 4 section 6.2.4; version 4 header)

pub struct LineProg(pub Enc);

impl LineProg {
    pub fn new() -> LineProg {
        LineProg(Enc::new(false))
    }
    /// special opcode
    pub fn special(mut self, op: u8) -> Self {
        self.0.u8(op);
        self
    }
    /// DW_LNS_copy 1
    pub fn copy(mut self) -> Self {
        self.0.u8(1);
        self
    }
    /// DW_LNS_advance_pc 2
    pub fn advance_pc(mut self, n: u64) -> Self {
        self.0.u8(2);
        self.0.uleb(n);
        self
    }
    /// DW_LNS_advance_line 3
    pub fn advance_line(mut self, n: i64) -> Self {
        self.0.u8(3);
        self.0.sleb(n);
        self
    }
    /// DW_LNS_set_file 4
    pub fn set_file(mut self, n: u64) -> Self {
        self.0.u8(4);
        self.0.uleb(n);
        self
    }
    /// DW_LNS_set_column 5
    pub fn set_column(mut self, n: u64) -> Self {
        self.0.u8(5);
        self.0.uleb(n);
        self
    }
    /// DW_LNS_negate_stmt 6
    pub fn negate_stmt(mut self) -> Self {
        self.0.u8(6);
        self
    }
    /// DW_LNS_set_basic_block 7
    pub fn basic_block(mut self) -> Self {
        self.0.u8(7);
        self
    }
    /// DW_LNS_const_add_pc 8
    pub fn const_add_pc(mut self) -> Self {
        self.0.u8(8);
        self
    }
    /// DW_LNS_fixed_advance_pc 9
    pub fn fixed_advance_pc(mut self, n: u16) -> Self {
        self.0.u8(9);
        self.0.u16(n);
        self
    }
    /// DW_LNS_set_prologue_end 10
    pub fn prologue_end(mut self) -> Self {
        self.0.u8(10);
        self
    }
    /// DW_LNS_set_epilogue_begin 11
    pub fn epilogue_begin(mut self) -> Self {
        self.0.u8(11);
        self
    }
    /// DW_LNS_set_isa 12
    pub fn set_isa(mut self, n: u64) -> Self {
        self.0.u8(12);
        self.0.uleb(n);
        self
    }
    fn ext(mut self, op: u8, body: &[u8]) -> Self {
        self.0.u8(0);
        self.0.uleb(1 + body.len() as u64);
        self.0.u8(op);
        self.0.bytes(body);
        self
    }
    /// DW_LNE_end_sequence 1
    pub fn end_sequence(self) -> Self {
        self.ext(1, &[])
    }
    /// DW_LNE_set_address 2
    pub fn set_address(self, a: u64, size: u8) -> Self {
        let mut e = Enc::new(false);
        e.addr(a, size);
        self.ext(2, &e.buf)
    }
    /// DW_LNE_define_file 3
    pub fn define_file(self, name: &[u8], dir: u64, mtime: u64, len: u64) -> Self {
        let mut e = Enc::new(false);
        e.cstr(name);
        e.uleb(dir);
        e.uleb(mtime);
        e.uleb(len);
        self.ext(3, &e.buf)
    }
    /// DW_LNE_set_discriminator 4
    pub fn discriminator(self, n: u64) -> Self {
        let mut e = Enc::new(false);
        e.uleb(n);
        self.ext(4, &e.buf)
    }
    pub fn raw(mut self, b: &[u8]) -> Self {
        self.0.bytes(b);
        self
    }
}

/// Version 4 line program: min_inst_len 1, max_ops 1, default_is_stmt 1,
/// line_base -3, line_range 12, opcode_base 13, one include dir, two files.
pub fn line_program_v4(program: &[u8]) -> Vec<u8> {
    let mut h = Enc::new(false);
    h.u8(1); // minimum_instruction_length
    h.u8(1); // maximum_operations_per_instruction
    h.u8(1); // default_is_stmt
    h.u8((-3i8) as u8); // line_base
    h.u8(12); // line_range
    h.u8(13); // opcode_base
    h.bytes(&[0, 1, 1, 1, 1, 0, 0, 0, 1, 0, 0, 1]); // standard_opcode_lengths
    h.cstr(b"inc");
    h.u8(0); // end of include_directories
    h.cstr(b"a.c");
    h.uleb(0);
    h.uleb(0);
    h.uleb(0);
    h.cstr(b"b.h");
    h.uleb(1);
    h.uleb(0);
    h.uleb(0);
    h.u8(0); // end of file_names
    let mut b = Enc::new(false);
    b.u16(4);
    b.with_length(false, &h); // header_length (same 4-byte shape in the 32-bit format)
    b.bytes(program);
    let mut out = Enc::new(false);
    out.with_length(false, &b);
    out.buf
}
