//! C20: the `ConvertUnitEntry` buffer of the read-to-write converter, reused for every entry of
//! a unit (as the documented conversion loop does), behaves like a fresh buffer per entry.
use super::entry::{tree_abbrevs, tree_unit, Variant};
use gimli::write;
use gimli::{EndianSlice, LittleEndian};
use mcx::space::trees;
use mcx::{guard, Ctx, Sub, Tier};

type R<'a> = EndianSlice<'a, LittleEndian>;

/// What a caller can see of one entry handed back by `ConvertUnit::read_entry`.
fn snap(e: &write::ConvertUnitEntry<'_, R<'_>>, id: Option<bool>) -> String {
    let attrs: Vec<String> = e.attrs().iter().map(|a| format!("{:#x}/{:#x}={:?}", a.name().0, a.form().0, a.raw_value())).collect();
    format!("off={:#x} tag={:#x} children={} sibling={} parent={:?} reserved={:?} attrs=[{}]", e.offset().0, e.tag().0, e.has_children(), e.sibling, e.parent.map(|p| { let t = format!("{:?}", p); t[t.find("index").unwrap_or(0)..].trim_end_matches(" }").to_string() }), id, attrs.join(","))
}

/// All entries of the first unit, read into one reused buffer (`fresh == false`) or into a
/// new null buffer per entry (`fresh == true`).
fn read_all(info: &[u8], abbrev: &[u8], fresh: bool) -> Result<Vec<String>, String> {
    let mut rd: gimli::Dwarf<R<'_>> = gimli::Dwarf::default();
    rd.debug_info = gimli::DebugInfo::new(info, LittleEndian);
    rd.debug_abbrev = gimli::DebugAbbrev::new(abbrev, LittleEndian);
    let mut wd = write::Dwarf::new();
    let mut conv = wd.convert(&rd).map_err(|e| format!("convert: {:?}", e))?;
    let (mut unit, root_entry) = conv.read_unit().map_err(|e| format!("read_unit: {:?}", e))?.ok_or("no unit")?;
    let mut out = vec![snap(&root_entry, None)];
    let mut entry = root_entry;
    loop {
        if fresh {
            entry = unit.null_entry();
        }
        match unit.read_entry(&mut entry) {
            Ok(Some(id)) => out.push(snap(&entry, Some(id.is_some()))),
            Ok(None) => return Ok(out),
            Err(e) => {
                out.push(format!("Err({:?})", e));
                return Ok(out);
            }
        }
        if out.len() > 64 {
            return Err("read_entry does not end".into());
        }
    }
}

pub fn subs(_tier: Tier) -> Vec<Sub> {
    let mut cfgs: Vec<(Vec<usize>, Variant)> = vec![];
    for n in 1..=5usize {
        for t in trees(n) {
            for v in [Variant::Plain, Variant::Sibling, Variant::EmptyParents, Variant::Trailing] {
                cfgs.push((t.clone(), v));
            }
            for k in 0..n {
                cfgs.push((t.clone(), Variant::ErrAt(k)));
            }
        }
    }
    let n = cfgs.len() as u64;
    vec![Sub::new(
        "convert-entry-buffer",
        n,
        "every ordered tree with <= 5 nodes x {plain, DW_AT_sibling on inner nodes only, leaves declared with children, invalid abbreviation code at node k, two more entries (a leaf; an entry with a child) after the null that ends the root's children}: all entries of the unit read with ConvertUnit::read_entry into ONE ConvertUnitEntry (the documented conversion loop) vs into a new null entry each time; offset, tag, children flag, sibling flag, parent, reservation and attributes of every entry must agree",
        move |ctx: &mut Ctx, i| {
            let (parent, v) = &cfgs[i as usize];
            let (info, _) = tree_unit(parent, *v);
            let abbrev = tree_abbrevs();
            let case = || format!("tree {:?} variant {:?} .debug_info={} .debug_abbrev={}", parent, v, mcx::hex(&info), mcx::hex(&abbrev));
            ctx.eval(2);
            let reused = match guard(|| read_all(&info, &abbrev, false)) {
                Ok(r) => r,
                Err(p) => return ctx.fail_panic("ConvertUnit::read_entry", &p, case()),
            };
            let fresh = match guard(|| read_all(&info, &abbrev, true)) {
                Ok(r) => r,
                Err(p) => return ctx.fail_panic("ConvertUnit::read_entry", &p, case()),
            };
            if ctx.want_sample() {
                ctx.sample(format!("{} -> {:?}", case(), reused));
            }
            match (reused, fresh) {
                (Ok(a), Ok(b)) => {
                    if a != b {
                        let k = a.iter().zip(&b).position(|(x, y)| x != y).unwrap_or(a.len().min(b.len()));
                        ctx.fail("ConvertUnit::read_entry", "reused-entry-buffer-equals-fresh", "entry-differs", format!("{}\n  entry #{}:\n   reused buffer: {}\n   fresh buffer : {}", case(), k, a.get(k).cloned().unwrap_or_default(), b.get(k).cloned().unwrap_or_default()));
                        return;
                    }
                    ctx.nontriv(1);
                    ctx.outcome("convert-entry:equal");
                    if a.iter().any(|s| s.contains("sibling=true")) && a.iter().any(|s| s.contains("sibling=false") && s.contains("reserved=Some")) {
                        ctx.outcome("convert-entry:sibling-then-no-sibling");
                    }
                    if a.iter().any(|s| s.starts_with("Err(")) {
                        ctx.outcome("convert-entry:ended-in-error");
                    }
                }
                (Err(e), _) | (_, Err(e)) => {
                    // the converter refuses the unit as a whole (e.g. invalid code at the root): same for both
                    let _ = e;
                    ctx.outcome("convert-entry:unit-refused");
                }
            }
        },
    )]
}

pub fn required() -> Vec<String> {
    ["convert-entry:equal", "convert-entry:sibling-then-no-sibling"].iter().map(|s| s.to_string()).collect()
}
