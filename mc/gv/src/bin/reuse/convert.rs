//! C20: the `ConvertUnitEntry` buffer of the read-to-write converter, reused for every entry of
//! a unit (as the documented conversion loop does), behaves like a fresh buffer per entry.
use super::dw::*;
use super::entry::{tree_abbrevs, tree_unit, Variant};
use mcx::enc::Enc;
use gimli::write;
use gimli::{EndianSlice, LittleEndian};
use mcx::space::trees;
use mcx::{guard, Ctx, Sub, Tier};

type R<'a> = EndianSlice<'a, LittleEndian>;

/// What a caller can see of one entry handed back by `ConvertUnit::read_entry`.
fn snap(e: &write::ConvertUnitEntry<'_, R<'_>>, id: Option<bool>) -> String {
    let attrs: Vec<String> = e.attrs().iter().map(|a| format!("{:#x}/{:#x}={:?}", a.name().0, a.form().0, a.raw_value())).collect();
    format!("off={:#x} tag={:#x} children={} sibling={} parent={:?} reserved={:?} attrs=[{}]", e.offset().0, e.tag().0, e.has_children(), e.sibling, e.parent.map(|p| { let t = format!("{:?}", p); t[t.find("index").unwrap_or(0)..].trim_end_matches(" }").to_string() }), id, attrs.join(","))
}

/// All entries of the first unit, read into one reused buffer (`fresh == false`) or into a
/// new null buffer per entry (`fresh == true`).
fn read_all(info: &[u8], abbrev: &[u8], fresh: bool) -> Result<Vec<String>, String> {
    let mut rd: gimli::Dwarf<R<'_>> = gimli::Dwarf::default();
    rd.debug_info = gimli::DebugInfo::new(info, LittleEndian);
    rd.debug_abbrev = gimli::DebugAbbrev::new(abbrev, LittleEndian);
    let mut wd = write::Dwarf::new();
    let mut conv = wd.convert(&rd).map_err(|e| format!("convert: {:?}", e))?;
    let (mut unit, root_entry) = conv.read_unit().map_err(|e| format!("read_unit: {:?}", e))?.ok_or("no unit")?;
    let mut out = vec![snap(&root_entry, None)];
    let mut entry = root_entry;
    loop {
        if fresh {
            entry = unit.null_entry();
        }
        match unit.read_entry(&mut entry) {
            Ok(Some(id)) => out.push(snap(&entry, Some(id.is_some()))),
            Ok(None) => return Ok(out),
            Err(e) => {
                out.push(format!("Err({:?})", e));
                return Ok(out);
            }
        }
        if out.len() > 64 {
            return Err("read_entry does not end".into());
        }
    }
}

pub fn subs(tier: Tier) -> Vec<Sub> {
    let mut cfgs: Vec<(Vec<usize>, Variant)> = vec![];
    for n in 1..=5usize {
        for t in trees(n) {
            for v in [Variant::Plain, Variant::Sibling, Variant::EmptyParents, Variant::Trailing] {
                cfgs.push((t.clone(), v));
            }
            for k in 0..n {
                cfgs.push((t.clone(), Variant::ErrAt(k)));
            }
        }
    }
    let n = cfgs.len() as u64;
    vec![units_sub(tier), Sub::new(
        "convert-entry-buffer",
        n,
        "every ordered tree with <= 5 nodes x {plain, DW_AT_sibling on inner nodes only, leaves declared with children, invalid abbreviation code at node k, two more entries (a leaf; an entry with a child) after the null that ends the root's children}: all entries of the unit read with ConvertUnit::read_entry into ONE ConvertUnitEntry (the documented conversion loop) vs into a new null entry each time; offset, tag, children flag, sibling flag, parent, reservation and attributes of every entry must agree",
        move |ctx: &mut Ctx, i| {
            let (parent, v) = &cfgs[i as usize];
            let (info, _) = tree_unit(parent, *v);
            let abbrev = tree_abbrevs();
            let case = || format!("tree {:?} variant {:?} .debug_info={} .debug_abbrev={}", parent, v, mcx::hex(&info), mcx::hex(&abbrev));
            ctx.eval(2);
            let reused = match guard(|| read_all(&info, &abbrev, false)) {
                Ok(r) => r,
                Err(p) => return ctx.fail_panic("ConvertUnit::read_entry", &p, case()),
            };
            let fresh = match guard(|| read_all(&info, &abbrev, true)) {
                Ok(r) => r,
                Err(p) => return ctx.fail_panic("ConvertUnit::read_entry", &p, case()),
            };
            if ctx.want_sample() {
                ctx.sample(format!("{} -> {:?}", case(), reused));
            }
            match (reused, fresh) {
                (Ok(a), Ok(b)) => {
                    if a != b {
                        let k = a.iter().zip(&b).position(|(x, y)| x != y).unwrap_or(a.len().min(b.len()));
                        ctx.fail("ConvertUnit::read_entry", "reused-entry-buffer-equals-fresh", "entry-differs", format!("{}\n  entry #{}:\n   reused buffer: {}\n   fresh buffer : {}", case(), k, a.get(k).cloned().unwrap_or_default(), b.get(k).cloned().unwrap_or_default()));
                        return;
                    }
                    ctx.nontriv(1);
                    ctx.outcome("convert-entry:equal");
                    if a.iter().any(|s| s.contains("sibling=true")) && a.iter().any(|s| s.contains("sibling=false") && s.contains("reserved=Some")) {
                        ctx.outcome("convert-entry:sibling-then-no-sibling");
                    }
                    if a.iter().any(|s| s.starts_with("Err(")) {
                        ctx.outcome("convert-entry:ended-in-error");
                    }
                }
                (Err(e), _) | (_, Err(e)) => {
                    // the converter refuses the unit as a whole (e.g. invalid code at the root): same for both
                    let _ = e;
                    ctx.outcome("convert-entry:unit-refused");
                }
            }
        },
    )]
}

// ---------------------------------------------------------------------------
// Units converted after each other by one converter

const UNIT_NAMES: [&str; 6] = ["compile unit {a {b}, c}", "compile unit without children", "skeleton unit", "partial unit {p}", "compile unit {x, y, z}", "split-compile unit {s}"];

fn units_abbrevs() -> Vec<u8> {
    AbbrevTable::new()
        .decl(1, DW_TAG_COMPILE_UNIT, true, &[(DW_AT_NAME, DW_FORM_STRING)])
        .decl(2, DW_TAG_VARIABLE, false, &[(DW_AT_NAME, DW_FORM_STRING)])
        .decl(3, DW_TAG_NAMESPACE, true, &[(DW_AT_NAME, DW_FORM_STRING)])
        .decl(4, 0x4a, false, &[(DW_AT_NAME, DW_FORM_STRING)])
        .decl(5, DW_TAG_PARTIAL_UNIT, true, &[(DW_AT_NAME, DW_FORM_STRING)])
        .decl(6, DW_TAG_COMPILE_UNIT, false, &[(DW_AT_NAME, DW_FORM_STRING)])
        .end()
}

/// One version 5 unit of the pool (unit types compile 1, partial 3, skeleton 4, split compile 5).
fn pool_unit(k: usize) -> Vec<u8> {
    let mut d = Enc::new(false);
    let die = |d: &mut Enc, code: u64, name: &str| {
        d.uleb(code);
        d.cstr(name.as_bytes());
    };
    let ut: u8 = match k {
        0 => {
            die(&mut d, 1, "u0");
            die(&mut d, 3, "a");
            die(&mut d, 2, "b");
            d.uleb(0);
            die(&mut d, 2, "c");
            d.uleb(0);
            1
        }
        1 => {
            die(&mut d, 6, "u1");
            1
        }
        2 => {
            die(&mut d, 4, "u2");
            4
        }
        3 => {
            die(&mut d, 5, "u3");
            die(&mut d, 2, "p");
            d.uleb(0);
            3
        }
        4 => {
            die(&mut d, 1, "u4");
            die(&mut d, 2, "x");
            die(&mut d, 2, "y");
            die(&mut d, 2, "z");
            d.uleb(0);
            1
        }
        _ => {
            die(&mut d, 1, "u5");
            die(&mut d, 2, "s");
            d.uleb(0);
            5
        }
    };
    let mut b = Enc::new(false);
    b.u16(5).u8(ut).u8(8).offset(0, false);
    if ut == 4 || ut == 5 {
        b.u64(0x1122_3344_5566_7700 + k as u64);
    }
    b.bytes(&d.buf);
    let mut out = Enc::new(false);
    out.with_length(false, &b);
    out.buf
}

/// Convert the whole `.debug_info` with `write::Dwarf::from`, write it, read it back and render
/// every unit: one string per unit.
fn convert_units(info: &[u8], abbrev: &[u8]) -> Result<Vec<String>, String> {
    let mut rd: gimli::Dwarf<R<'_>> = gimli::Dwarf::default();
    rd.debug_info = gimli::DebugInfo::new(info, LittleEndian);
    rd.debug_abbrev = gimli::DebugAbbrev::new(abbrev, LittleEndian);
    let mut wd = write::Dwarf::from(&rd, &|a| Some(write::Address::Constant(a))).map_err(|e| format!("Dwarf::from: {:?}", e))?;
    let mut sections = write::Sections::new(write::EndianVec::new(LittleEndian));
    wd.write(&mut sections).map_err(|e| format!("Dwarf::write: {:?}", e))?;
    let mut out: gimli::Dwarf<R<'_>> = gimli::Dwarf::default();
    out.debug_info = gimli::DebugInfo::new(sections.debug_info.slice(), LittleEndian);
    out.debug_abbrev = gimli::DebugAbbrev::new(sections.debug_abbrev.slice(), LittleEndian);
    out.debug_str = gimli::DebugStr::new(sections.debug_str.slice(), LittleEndian);
    let mut units = out.units();
    let mut v = vec![];
    while let Some(h) = units.next().map_err(|e| format!("read back units: {:?}", e))? {
        let u = out.unit(h).map_err(|e| format!("read back unit: {:?}", e))?;
        let mut s = format!("type={:?} version={}", u.header.type_(), u.header.version());
        let mut c = u.entries();
        while c.next_dfs().map_err(|e| format!("read back entries: {:?}", e))?.is_some() {
            let depth = c.depth();
            let e = c.current().ok_or("cursor without current entry")?;
            s.push_str(&format!(" | depth{} tag={:#x}", depth, e.tag().0));
            for a in e.attrs() {
                let val = match out.attr_string(&u, a.value()) {
                    Ok(x) => format!("{:?}", String::from_utf8_lossy(x.slice())),
                    Err(_) => format!("{:?}", a.value()),
                };
                s.push_str(&format!(" {:#x}={}", a.name().0, val));
            }
        }
        v.push(s);
    }
    Ok(v)
}

fn units_sub(tier: Tier) -> Sub {
    let n = UNIT_NAMES.len() as u64;
    let maxlen = tier.pick(3u32, 4u32);
    let total: u64 = (1..=maxlen).map(|l| n.pow(l)).sum();
    Sub::new(
        &format!("convert-units-after-each-other-len<={}", maxlen),
        total,
        "every sequence of 1..=3 (thorough: 4) version 5 units over a pool of 6 (compile units with nested, with flat and without children, a skeleton unit, a partial unit, a split-compile unit) in one .debug_info, converted by ONE write::Dwarf::from (one converter, its per-unit scratch state reused), written and read back: the k-th unit equals what converting that unit alone gives",
        move |ctx: &mut Ctx, i| {
            let mut ks = vec![];
            let mut r = i;
            let mut len = 1u32;
            while r >= n.pow(len) {
                r -= n.pow(len);
                len += 1;
            }
            for _ in 0..len {
                ks.push((r % n) as usize);
                r /= n;
            }
            let abbrev = units_abbrevs();
            let mut info = vec![];
            for &k in &ks {
                info.extend(pool_unit(k));
            }
            let case = || format!("units [{}] .debug_info={} .debug_abbrev={}", ks.iter().map(|&k| UNIT_NAMES[k]).collect::<Vec<_>>().join(" ; "), mcx::hex(&info), mcx::hex(&abbrev));
            ctx.eval(1 + ks.len() as u64);
            let whole = match guard(|| convert_units(&info, &abbrev)) {
                Ok(x) => x,
                Err(p) => return ctx.fail_panic("write::Dwarf::from", &p, case()),
            };
            let mut alone = vec![];
            for &k in &ks {
                match guard(|| convert_units(&pool_unit(k), &abbrev)) {
                    Ok(Ok(v)) if v.len() == 1 => alone.push(v[0].clone()),
                    Ok(other) => {
                        ctx.outcome("convert-units:unit-alone-not-convertible");
                        let _ = other;
                        return;
                    }
                    Err(p) => return ctx.fail_panic("write::Dwarf::from", &p, case()),
                }
            }
            match whole {
                Ok(w) if w == alone => {
                    ctx.nontriv(1);
                    ctx.outcome("convert-units:equal");
                    if ks.len() >= 2 && ks.windows(2).any(|w| matches!(w[0], 0 | 4) && matches!(w[1], 1 | 2)) {
                        ctx.outcome("convert-units:childless-unit-after-unit-with-children");
                    }
                }
                other => ctx.fail("write::Dwarf::from", "unit-after-others-equals-alone", "unit-differs", format!("{}\n  converted together: {:?}\n  each alone        : {:?}", case(), other, alone)),
            }
        },
    )
}

pub fn required() -> Vec<String> {
    ["convert-entry:equal", "convert-entry:sibling-then-no-sibling", "convert-units:equal", "convert-units:childless-unit-after-unit-with-children"].iter().map(|s| s.to_string()).collect()
}
