//! C20 group 1: one `UnwindContext` reused across every history of
//! evaluations (successful, partial, failing) gives, for every evaluation, the
//! result a freshly constructed context gives.
use super::dw::{Cfa, FrameSec};
use gimli::{
    BaseAddresses, CfaRule, DebugFrame, DebugFrameOffset, EndianSlice, FrameDescriptionEntry, LittleEndian, Register, RegisterRule, StoreOnHeap, UnwindContext, UnwindContextStorage,
    UnwindSection, UnwindTableRow,
};
use mcx::explore::bfs;
use mcx::{guard, Ctx, Panic, Sub, Tier};
use std::sync::OnceLock;

type R = EndianSlice<'static, LittleEndian>;

// ---------------------------------------------------------------------------
// Storages

pub trait St: UnwindContextStorage<usize> + 'static {
    const NAME: &'static str;
}

impl St for StoreOnHeap {
    const NAME: &'static str = "StoreOnHeap(rules192,stack4)";
}

/// In-line arrays: 4 register rules, 4 stack rows.
#[derive(Clone, PartialEq, Eq)]
pub struct Arr4;
impl<T: gimli::ReaderOffset> UnwindContextStorage<T> for Arr4 {
    type Rules = [(Register, RegisterRule<T>); 4];
    type Stack = [UnwindTableRow<T, Self>; 4];
}
impl St for Arr4 {
    const NAME: &'static str = "Arr4(rules[_;4],stack[_;4])";
}

/// In-line arrays: 8 register rules, 8 stack rows.
#[derive(Clone, PartialEq, Eq)]
pub struct Arr8;
impl<T: gimli::ReaderOffset> UnwindContextStorage<T> for Arr8 {
    type Rules = [(Register, RegisterRule<T>); 8];
    type Stack = [UnwindTableRow<T, Self>; 8];
}
impl St for Arr8 {
    const NAME: &'static str = "Arr8(rules[_;8],stack[_;8])";
}

/// Growable storage (never full).
#[derive(Clone, PartialEq, Eq)]
pub struct Grow;
impl<T: gimli::ReaderOffset> UnwindContextStorage<T> for Grow {
    type Rules = Vec<(Register, RegisterRule<T>)>;
    type Stack = Vec<UnwindTableRow<T, Self>>;
}
impl St for Grow {
    const NAME: &'static str = "Grow(rulesVec,stackVec)";
}

pub const N_STORAGES: u64 = 4;

// ---------------------------------------------------------------------------
// FDE pool

pub struct Pool {
    pub bytes: &'static [u8],
    pub section: DebugFrame<R>,
    pub bases: BaseAddresses,
    pub fdes: Vec<FrameDescriptionEntry<R>>,
    pub names: Vec<&'static str>,
    pub cie_offsets: Vec<u64>,
    pub fde_offsets: Vec<u64>,
}

pub fn pool() -> &'static Pool {
    static P: OnceLock<Pool> = OnceLock::new();
    P.get_or_init(build_pool)
}

fn build_pool() -> Pool {
    let mut s = FrameSec::new();
    // DW_OP_breg7 (0x77) SLEB offset
    let breg7_8: [u8; 2] = [0x77, 0x08];
    let breg7_0: [u8; 2] = [0x77, 0x00];
    let breg0_16: [u8; 2] = [0x70, 0x10];
    // CIEs (code alignment 1, data alignment -8, return address register 16)
    let cie_a = s.cie(1, -8, 16, Cfa::new().def_cfa(7, 8).bytes()); // 0 initial rules
    let cie_b = s.cie(1, -8, 16, Cfa::new().def_cfa(7, 8).offset(16, 1).bytes()); // 1 initial rule
    let cie_c = s.cie(1, -8, 16, Cfa::new().def_cfa(7, 8).offset(16, 1).offset(6, 2).offset(3, 3).bytes()); // 3 initial rules
    let cie_d = s.cie(1, -8, 16, Cfa::new().def_cfa(7, 8).offset(16, 1).remember().offset(6, 2).bytes()); // remember_state left open
    let cie_e = s.cie(1, -8, 16, Cfa::new().def_cfa(7, 8).offset(16, 1).offset(6, 2).remember().offset(3, 3).args_size(0x20).restore(16).bytes()); // fails after rules + push
    let cie_f = s.cie(1, -8, 16, Cfa::new().def_cfa_expression(&breg7_8).val_expression(16, &breg7_0).bytes()); // expression CFA
    let cie_g = s.cie(1, -8, 16, Cfa::new().def_cfa(7, 8).offset(16, 1).offset(6, 2).remember().remember().remember().bytes()); // 2 rules, 3 open pushes
    // fails after changing the bottom row (CFA, argument size, a rule) WITHOUT having pushed:
    // the context is left "not initialised" with a single, modified row
    let cie_h = s.cie(1, -8, 16, Cfa::new().def_cfa(7, 8).args_size(0x10).offset(4, 2).restore_state().bytes());
    let mut names = vec![];
    let mut offs = vec![];
    let mut add = |s: &mut FrameSec, name: &'static str, cie: u64, insns: Cfa| {
        let i = names.len() as u64;
        offs.push(s.fde(cie, 0x1000 * (i + 1), 0x100, insns.bytes()));
        names.push(name);
    };
    add(&mut s, "zero-initial-rules", cie_a, Cfa::new().advance(4).offset(6, 2).advance(4).def_cfa_offset(16).advance(4).restore(6));
    add(&mut s, "one-initial-rule", cie_b, Cfa::new().advance(2).offset(16, 3).advance(2).restore(16).advance(2).restore(6).undefined(5));
    add(
        &mut s,
        "many-initial-rules",
        cie_c,
        Cfa::new().advance(1).offset(3, 5).remember().advance(1).undefined(6).def_cfa_offset(32).advance(1).restore_state().advance(1).restore(3).restore(5),
    );
    add(&mut s, "cie-remember-left-open", cie_d, Cfa::new().advance(1).restore_state().advance(1).offset(3, 4));
    add(&mut s, "cie-fails-after-rules-and-push", cie_e, Cfa::new().advance(1).offset(3, 4));
    // sixth FDE: its initial address is 0x6000; DW_CFA_set_loc back to it after two advances
    add(&mut s, "fde-fails-after-push(set_loc-backwards)", cie_b, Cfa::new().advance(1).remember().offset(3, 2).args_size(0x10).advance(1).set_loc(0x6000, 8).advance(1));
    add(&mut s, "stack-full-in-fde(8-pushes)", cie_b, Cfa::new().advance(1).remember().remember().remember().remember().remember().remember().remember().remember().advance(1));
    {
        let mut c = Cfa::new().advance(1);
        for r in 100..293 {
            c = c.offset_ext(r, 1);
        }
        add(&mut s, "too-many-register-rules(193)", cie_a, c.advance(1));
    }
    add(&mut s, "pop-empty(many-rule-cie)", cie_c, Cfa::new().advance(1).restore_state().advance(1));
    add(&mut s, "pop-empty(one-rule-cie)", cie_b, Cfa::new().remember().restore_state().advance(1).restore_state().advance(1));
    add(&mut s, "expression-cfa", cie_f, Cfa::new().advance(1).expression(3, &breg0_16).advance(1).def_cfa(7, 16).advance(1).def_cfa_expression(&breg0_16));
    add(&mut s, "stack-full-saving-initial-rules", cie_g, Cfa::new().advance(1).restore_state().advance(1));
    add(&mut s, "def_cfa_offset-on-expression-cfa", cie_f, Cfa::new().advance(1).def_cfa_offset(8).advance(1));
    // GNU_args_size executed on the bottom row (no remember_state above it): a reset that
    // re-uses the bottom row must clear the saved argument size as well
    add(&mut s, "args-size-on-bottom-row(zero-rule-cie)", cie_a, Cfa::new().advance(1).args_size(0x20).advance(1).offset(6, 2));
    add(&mut s, "args-size-on-bottom-row(one-rule-cie)", cie_b, Cfa::new().args_size(0x8).advance(2).args_size(0x18).advance(1));
    add(&mut s, "cie-fails-after-rules-without-push", cie_h, Cfa::new().advance(1).offset(3, 4));
    let bytes: &'static [u8] = Box::leak(s.e.buf.into_boxed_slice());
    let mut section = DebugFrame::new(bytes, LittleEndian);
    section.set_address_size(8);
    let bases = BaseAddresses::default();
    let fdes = offs
        .iter()
        .map(|&o| section.fde_from_offset(&bases, DebugFrameOffset(o as usize), DebugFrame::cie_from_offset).expect("pool FDE must parse"))
        .collect();
    Pool { bytes, section, bases, fdes, names, cie_offsets: vec![cie_a, cie_b, cie_c, cie_d, cie_e, cie_f, cie_g, cie_h], fde_offsets: offs }
}

// ---------------------------------------------------------------------------
// Actions and their observable results

pub const KINDS: usize = 4;
const KIND_NAMES: [&str; KINDS] = ["all-rows", "stop-after-0-rows", "stop-after-1-row", "unwind_info_for_address(+2)"];

pub fn n_actions() -> usize {
    pool().fdes.len() * KINDS + 2
}

pub fn action_name(a: usize) -> String {
    let p = pool();
    let nf = p.fdes.len();
    if a >= nf * KINDS {
        return if a == nf * KINDS { "section.unwind_info_for_address(0x10:no-fde)".into() } else { "section.unwind_info_for_address(0x3001)".into() };
    }
    format!("F{}[{}].{}", a / KINDS, p.names[a / KINDS], KIND_NAMES[a % KINDS])
}

#[derive(Clone, PartialEq, Debug)]
pub struct RowSnap {
    start: u64,
    end: u64,
    args: u64,
    cfa: CfaRule<usize>,
    /// sorted by register number (the iteration order is documented as unspecified)
    regs: Vec<(Register, RegisterRule<usize>)>,
}

fn snap<S: St>(r: &UnwindTableRow<usize, S>) -> RowSnap {
    let mut regs: Vec<_> = r.registers().cloned().collect();
    regs.sort_by_key(|x| x.0);
    RowSnap { start: r.start_address(), end: r.end_address(), args: r.saved_args_size(), cfa: r.cfa().clone(), regs }
}

#[derive(Clone, PartialEq, Debug)]
pub enum Ev {
    Row(RowSnap),
    End,
    Err(gimli::Error),
    /// `UnwindTable::into_current_row`
    Cur(Option<RowSnap>),
}

pub fn render(evs: &[Ev]) -> String {
    let mut s = String::new();
    for e in evs {
        if !s.is_empty() {
            s.push_str(" | ");
        }
        match e {
            Ev::Row(r) => s.push_str(&format!("row {:#x}..{:#x} args={} cfa={:?} regs={:?}", r.start, r.end, r.args, r.cfa, r.regs.iter().map(|(a, b)| format!("r{}={:?}", a.0, b)).collect::<Vec<_>>())),
            Ev::End => s.push_str("end"),
            Ev::Err(e) => s.push_str(&format!("Err({:?})", e)),
            Ev::Cur(None) => s.push_str("current=None"),
            Ev::Cur(Some(r)) => s.push_str(&format!("current=row {:#x}..{:#x} ({} rules)", r.start, r.end, r.regs.len())),
        }
    }
    s
}

fn short(evs: &[Ev]) -> String {
    let rows = evs.iter().filter(|e| matches!(e, Ev::Row(_))).count();
    match evs.last() {
        Some(Ev::Err(e)) => format!("{} rows then Err({:?})", rows, e),
        Some(Ev::End) => format!("{} rows, end", rows),
        Some(Ev::Cur(c)) => format!("{} rows, current={}", rows, if c.is_some() { "Some" } else { "None" }),
        Some(Ev::Row(_)) => format!("{} rows", rows),
        None => "nothing".into(),
    }
}

/// Outcome class of a result, for the vacuity guards.
fn class(evs: &[Ev]) -> String {
    let rows = evs.iter().filter(|e| matches!(e, Ev::Row(_))).count();
    match evs.last() {
        Some(Ev::Err(e)) => {
            let d = format!("{:?}", e);
            let k = d.split('(').next().unwrap_or("?").to_string();
            if rows == 0 {
                format!("unwind:err-before-first-row:{}", k)
            } else {
                format!("unwind:err-after-rows:{}", k)
            }
        }
        _ => "unwind:ok".into(),
    }
}

/// Execute action `a` on `ctx` (real gimli code).
pub fn run<S: St>(ctx: &mut UnwindContext<usize, S>, a: usize) -> Result<Vec<Ev>, Panic> {
    let p = pool();
    let nf = p.fdes.len();
    guard(move || {
        let mut out = Vec::new();
        if a >= nf * KINDS {
            let addr = if a == nf * KINDS { 0x10 } else { 0x3001 };
            match p.section.unwind_info_for_address(&p.bases, ctx, addr, DebugFrame::cie_from_offset) {
                Ok(r) => out.push(Ev::Row(snap(r))),
                Err(e) => out.push(Ev::Err(e)),
            }
            return out;
        }
        let fde = &p.fdes[a / KINDS];
        match a % KINDS {
            3 => match fde.unwind_info_for_address(&p.section, &p.bases, ctx, fde.initial_address() + 2) {
                Ok(r) => out.push(Ev::Row(snap(r))),
                Err(e) => out.push(Ev::Err(e)),
            },
            k => {
                let limit = match k {
                    0 => 64,
                    1 => 0,
                    _ => 1,
                };
                match fde.rows(&p.section, &p.bases, ctx) {
                    Err(e) => out.push(Ev::Err(e)),
                    Ok(mut t) => {
                        let mut n = 0;
                        let mut ended = false;
                        while n < limit {
                            match t.next_row() {
                                Ok(Some(r)) => out.push(Ev::Row(snap(r))),
                                Ok(None) => {
                                    out.push(Ev::End);
                                    ended = true;
                                    break;
                                }
                                Err(e) => {
                                    out.push(Ev::Err(e));
                                    ended = true;
                                    break;
                                }
                            }
                            n += 1;
                        }
                        if !ended && k != 0 {
                            out.push(Ev::Cur(t.into_current_row().map(snap)));
                        }
                    }
                }
            }
        }
        out
    })
}

/// Result of every action on a freshly constructed context.
pub fn expected<S: St>() -> Result<Vec<Vec<Ev>>, (usize, Panic)> {
    (0..n_actions())
        .map(|a| {
            let mut c = UnwindContext::<usize, S>::new_in();
            run::<S>(&mut c, a).map_err(|p| (a, p))
        })
        .collect()
}

fn history_text<S: St>(h: &[usize], exp: &[Vec<Ev>]) -> String {
    format!("{}: {}", S::NAME, h.iter().map(|&a| format!("{} -> {}", action_name(a), short(&exp[a]))).collect::<Vec<_>>().join(" ; "))
}

/// All histories `prefix ++ [b, c]` on one reused context.
fn histories_case<S: St>(ctx: &mut Ctx, prefix: &[usize]) {
    let na = n_actions();
    let exp = match expected::<S>() {
        Ok(e) => e,
        Err((a, p)) => {
            ctx.fail_panic("UnwindTable::next_row/fresh-context", &p, format!("{} action {}", S::NAME, action_name(a)));
            return;
        }
    };
    let mut counts = vec![0u64; na];
    let mut h: Vec<usize> = prefix.to_vec();
    h.push(0);
    h.push(0);
    let l = h.len();
    for b in 0..na {
        for c in 0..na {
            h[l - 2] = b;
            h[l - 1] = c;
            let mut uc = UnwindContext::<usize, S>::new_in();
            for (k, &a) in h.iter().enumerate() {
                counts[a] += 1;
                match run::<S>(&mut uc, a) {
                    Err(p) => {
                        ctx.fail_panic("UnwindContext-reuse", &p, history_text::<S>(&h[..=k], &exp));
                        break;
                    }
                    Ok(got) => {
                        if got != exp[a] {
                            ctx.fail(
                                "UnwindContext-reuse",
                                "result-on-reused-context==result-on-fresh-context",
                                "history-dependent-result",
                                format!("history [{}]; last action on the reused context gave [{}]; on a fresh context [{}]", history_text::<S>(&h[..=k], &exp), render(&got), render(&exp[a])),
                            );
                            break;
                        }
                    }
                }
            }
            ctx.transitions += l as u64;
            ctx.traces += 1;
        }
        ctx.heartbeat();
    }
    let total: u64 = counts.iter().sum();
    ctx.eval(total);
    ctx.nontriv((na * na) as u64);
    for a in 0..na {
        if counts[a] > 0 {
            ctx.outcome_n(&class(&exp[a]), counts[a]);
            if a % KINDS == 0 && a < pool().fdes.len() * KINDS {
                ctx.outcome_n(&format!("unwind:fde:{}", pool().names[a / KINDS]), counts[a]);
            }
        }
    }
    ctx.outcome(&format!("unwind:storage:{}", S::NAME));
    if ctx.want_sample() {
        h[l - 2] = (4 * KINDS + 2) % na;
        h[l - 1] = (2 * KINDS) % na;
        ctx.sample(format!("history on one reused context, every step equal to a fresh context: {}", history_text::<S>(&h, &exp)));
    }
}

fn bfs_case<S: St>(ctx: &mut Ctx, max_depth: usize) {
    let na = n_actions();
    let exp = match expected::<S>() {
        Ok(e) => e,
        Err((a, p)) => {
            ctx.fail_panic("UnwindTable::next_row/fresh-context", &p, format!("{} action {}", S::NAME, action_name(a)));
            return;
        }
    };
    #[derive(Clone)]
    struct P {
        path: Vec<u16>,
        key: String,
    }
    let init = P { path: vec![], key: format!("{:?}", UnwindContext::<usize, S>::new_in()) };
    let entry = "UnwindContext-reuse";
    let stats = bfs(
        ctx,
        entry,
        init,
        na,
        max_depth,
        |s: &P| s.key.clone(),
        |s, a| {
            // re-execute the whole path on one context constructed once (cloning a
            // context would launder the storage beyond `len`)
            let mut uc = UnwindContext::<usize, S>::new_in();
            for &b in &s.path {
                if let Err(p) = run::<S>(&mut uc, b as usize) {
                    return Err((p.site(), p.kind(), format!("panic {}", p.msg)));
                }
            }
            match run::<S>(&mut uc, a) {
                Err(p) => Err((p.site(), p.kind(), format!("{}: panic '{}' at {}:{}", S::NAME, p.msg, p.file, p.line))),
                Ok(got) => {
                    if got != exp[a] {
                        return Err((
                            "result-on-reused-context==result-on-fresh-context".into(),
                            "history-dependent-result".into(),
                            format!("{}: reused context gave [{}]; fresh context gives [{}]", S::NAME, render(&got), render(&exp[a])),
                        ));
                    }
                    let mut path = s.path.clone();
                    path.push(a as u16);
                    Ok(Some(P { path, key: format!("{:?}", uc) }))
                }
            }
        },
        action_name,
    );
    ctx.nontriv(stats.states);
    ctx.outcome(&format!("unwind-bfs:closed:{}", stats.closed));
    ctx.outcome_n(&format!("unwind-bfs:states:{}", S::NAME), stats.states);
    if !stats.closed {
        ctx.machinery(format!("{}: BFS did not reach the fixed point within depth {} ({} states): the context state depends on the history", S::NAME, max_depth, stats.states));
    }
    if ctx.want_sample() {
        ctx.sample(format!(
            "{}: BFS over {} actions, key = Debug rendering of the context: {} states, {} transitions, max depth {}, fixed point reached: {}",
            S::NAME,
            na,
            stats.states,
            stats.transitions,
            stats.max_depth,
            stats.closed
        ));
    }
}

/// A context that was used, then cloned: original and clone both behave like fresh.
fn clone_case<S: St>(ctx: &mut Ctx, a: usize)
where
    UnwindContext<usize, S>: Clone + PartialEq,
{
    let na = n_actions();
    let exp = match expected::<S>() {
        Ok(e) => e,
        Err(_) => return,
    };
    for b in 0..na {
        let mut uc = UnwindContext::<usize, S>::new_in();
        if run::<S>(&mut uc, a).is_err() {
            return;
        }
        let mut cl = uc.clone();
        if b == 0 {
            ctx.eval(1);
            let (d1, d2) = (format!("{:?}", cl), format!("{:?}", uc));
            if d1 != d2 || cl != uc {
                ctx.fail(
                    "UnwindContext::clone",
                    "clone-equals-original",
                    "clone-differs",
                    format!("{}: after {} the clone renders as {} (== original: {}), the original as {}", S::NAME, action_name(a), d1, cl == uc, d2),
                );
            }
        }
        for (which, c) in [("clone", &mut cl), ("original", &mut uc)] {
            ctx.eval(1);
            match run::<S>(c, b) {
                Err(p) => ctx.fail_panic("UnwindContext::clone", &p, format!("{} {} after {}", S::NAME, which, action_name(a))),
                Ok(got) => {
                    if got != exp[b] {
                        ctx.fail(
                            "UnwindContext::clone",
                            "result-on-cloned-context==result-on-fresh-context",
                            "history-dependent-result",
                            format!("{}: {} ; clone ; {} on the {} gave [{}]; fresh [{}]", S::NAME, action_name(a), action_name(b), which, render(&got), render(&exp[b])),
                        );
                    }
                }
            }
        }
    }
    ctx.outcome("clone:UnwindContext");
}

macro_rules! by_storage {
    ($s:expr, $f:ident, $($arg:expr),*) => {
        match $s {
            0 => $f::<StoreOnHeap>($($arg),*),
            1 => $f::<Arr4>($($arg),*),
            2 => $f::<Arr8>($($arg),*),
            _ => $f::<Grow>($($arg),*),
        }
    };
}

pub fn subs(tier: Tier) -> Vec<Sub> {
    let na = n_actions() as u64;
    let len: u32 = tier.pick(3, 4);
    let pre = len - 2;
    let mut v = vec![];
    v.push(
        Sub::new(
            &format!("unwind-context-histories-len{}", len),
            N_STORAGES * na.pow(pre),
            &format!(
                "every history of exactly {} actions (hence every shorter one as a prefix) over {} actions = {} FDEs x {{all rows, stop after 0 rows, stop after 1 row + into_current_row, unwind_info_for_address}} + 2 section-level lookups, executed on ONE UnwindContext per history, for 4 storages (StoreOnHeap, [_;4], [_;8], Vec); every step compared with the same action on a fresh context",
                len,
                na,
                pool().fdes.len()
            ),
            move |ctx, i| {
                let i = super::entry::scramble(i, N_STORAGES * na.pow(pre));
                let s = i % N_STORAGES;
                let mut r = i / N_STORAGES;
                let mut prefix = vec![];
                for _ in 0..pre {
                    prefix.push((r % na) as usize);
                    r /= na;
                }
                by_storage!(s, histories_case, ctx, &prefix)
            },
        )
        .timeout(600),
    );
    let depth = tier.pick(3usize, 4usize);
    v.push(
        Sub::new(
            "unwind-context-bfs",
            N_STORAGES,
            "explicit-state BFS per storage: state = reused context after a path, key = its complete Debug rendering (stack rows, initial_rule, is_initialized); explored to the fixed point (every action from every reachable state); every transition compared with a fresh context",
            move |ctx, i| by_storage!(i, bfs_case, ctx, depth),
        )
        .timeout(600),
    );
    v.push(Sub::new(
        "unwind-context-clone",
        N_STORAGES * na,
        "every action a, then UnwindContext::clone, then every action b on the clone and on the original: both equal a fresh context",
        move |ctx, i| by_storage!(i % N_STORAGES, clone_case, ctx, (i / N_STORAGES) as usize),
    ));
    v
}

pub fn required() -> Vec<String> {
    let mut v: Vec<String> = [
        "unwind:ok",
        "unwind:err-before-first-row:CfiInstructionInInvalidContext",
        "unwind:err-before-first-row:StackFull",
        "unwind:err-after-rows:StackFull",
        "unwind:err-after-rows:TooManyRegisterRules",
        "unwind:err-after-rows:PopWithEmptyStack",
        "unwind:err-after-rows:InvalidCfiSetLoc",
        "unwind:err-after-rows:CfiInstructionInInvalidContext",
        "unwind:err-before-first-row:NoUnwindInfoForAddress",
        "unwind-bfs:closed:true",
        "clone:UnwindContext",
    ]
    .iter()
    .map(|s| s.to_string())
    .collect();
    for n in &pool().names {
        v.push(format!("unwind:fde:{}", n));
    }
    for s in [StoreOnHeap::NAME, Arr4::NAME, Arr8::NAME, Grow::NAME] {
        v.push(format!("unwind:storage:{}", s));
        v.push(format!("unwind-bfs:states:{}", s));
    }
    v
}
