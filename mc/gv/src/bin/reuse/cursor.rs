//! C20: an `EntriesCursor` that has already been used (moved over entries, run into a failing
//! entry) shows what a fresh cursor positioned at the same place shows.
use super::entry::{tree_abbrevs, tree_unit, Variant};
use gimli::{DebugAbbrev, DebugInfo, EndianSlice, LittleEndian, UnitOffset};
use mcx::space::trees;
use mcx::{guard, Ctx, Sub, Tier};

type R<'a> = EndianSlice<'a, LittleEndian>;

const ACTS: [&str; 3] = ["next_entry", "next_dfs", "next_sibling"];

/// What `current()` shows, without the depth (a fresh cursor starts counting at 0).
fn cur(c: &gimli::EntriesCursor<'_, R<'_>>) -> String {
    match c.current() {
        Some(e) => format!("Some(off={:#x} tag={:#x} children={} attrs=[{}])", e.offset().0, e.tag().0, e.has_children(), e.attrs().iter().map(|a| format!("{:#x}={:?}", a.name().0, a.raw_value())).collect::<Vec<_>>().join(",")),
        None => "None".into(),
    }
}

fn apply(c: &mut gimli::EntriesCursor<'_, R<'_>>, a: usize) -> String {
    match a {
        0 => match c.next_entry() {
            Ok(b) => format!("Ok({})", b),
            Err(e) => format!("Err({:?})", e),
        },
        1 => match c.next_dfs() {
            Ok(Some(_)) => "Ok(Some)".into(),
            Ok(None) => "Ok(None)".into(),
            Err(e) => format!("Err({:?})", e),
        },
        _ => match c.next_sibling() {
            Ok(Some(_)) => "Ok(Some)".into(),
            Ok(None) => "Ok(None)".into(),
            Err(e) => format!("Err({:?})", e),
        },
    }
}

fn configs(max_nodes: usize) -> Vec<(Vec<usize>, Variant)> {
    let mut v = vec![];
    for n in 1..=max_nodes {
        for t in trees(n) {
            for var in [Variant::Plain, Variant::EmptyParents, Variant::Sibling, Variant::Trailing] {
                v.push((t.clone(), var));
            }
            for k in 0..n {
                v.push((t.clone(), Variant::ErrAt(k)));
            }
            if n == 1 {
                v.push((t.clone(), Variant::RootCut));
            }
        }
    }
    v
}

pub fn subs(tier: Tier) -> Vec<Sub> {
    let (nodes, len) = (5usize, tier.pick(6u32, 8u32));
    let cfgs = configs(nodes);
    let ncfg = cfgs.len() as u64;
    let nseq = 3u64.pow(len);
    vec![Sub::new(
        &format!("cursor-used-vs-fresh-n{}-len{}", nodes, len),
        ncfg * 9,
        &format!(
            "every sequence of exactly {} moves (shorter ones are prefixes) over {{next_entry, next_dfs, next_sibling}} on ONE EntriesCursor over every ordered tree with <= {} nodes x {{plain, leaves declared with children, DW_AT_sibling on inner nodes, entries after the root's terminator, invalid abbreviation code at node k, unit ending inside the root entry}} ({} configurations); after every move: (a) next_entry is compared (result and current()) with next_entry on a fresh cursor from entries_at_offset(next_offset before the move); (b) an entry shown by current() is compared with the first read of a fresh cursor at that offset; (c) after an error current() shows what a fresh cursor shows after a failing first read: nothing",
            len, nodes, ncfg
        ),
        move |ctx: &mut Ctx, i| {
            let (parent, var) = &cfgs[(i % ncfg) as usize];
            let pre = i / ncfg; // the first two moves
            let ab = tree_abbrevs();
            let (info, _) = tree_unit(parent, *var);
            let di = DebugInfo::new(&info, LittleEndian);
            let da = DebugAbbrev::new(&ab, LittleEndian);
            let hdr = di.units().next().unwrap().unwrap();
            let abbrevs = hdr.abbreviations(&da).unwrap();
            let render = |acts: &[usize], upto: usize| format!("tree {:?} {:?} unit {} abbrev {}: {}", parent, var, mcx::hex(&info), mcx::hex(&ab), acts[..=upto].iter().map(|&a| ACTS[a]).collect::<Vec<_>>().join(" ; "));
            let (mut after_err, mut shown, mut steps) = (0u64, 0u64, 0u64);
            for s in 0..nseq / 9 {
                let mut acts = vec![(pre % 3) as usize, (pre / 3) as usize];
                let mut x = s;
                for _ in 2..len {
                    acts.push((x % 3) as usize);
                    x /= 3;
                }
                let r = guard(|| -> Result<(u64, u64, u64), (usize, String)> {
                    let mut c = hdr.entries(&abbrevs);
                    let (mut ae, mut sh, mut st) = (0u64, 0u64, 0u64);
                    let mut failed = false;
                    for (k, &a) in acts.iter().enumerate() {
                        let before = c.next_offset();
                        let res = apply(&mut c, a);
                        st += 1;
                        let used = cur(&c);
                        if res.starts_with("Err") {
                            failed = true;
                        }
                        if failed {
                            ae += 1;
                            // fresh state: a cursor whose first read fails
                            if used != "None" {
                                return Err((k, format!("{} returned {}; current() on the used cursor = {} but a fresh cursor shows None after a failed read", ACTS[a], res, used)));
                            }
                            continue;
                        }
                        if a == 0 {
                            if let Ok(mut f) = hdr.entries_at_offset(&abbrevs, before) {
                                let fres = apply(&mut f, 0);
                                let fcur = cur(&f);
                                if fres != res || fcur != used {
                                    return Err((k, format!("next_entry at {:#x}: used cursor {} current()={} ; fresh cursor {} current()={}", before.0, res, used, fres, fcur)));
                                }
                            }
                        }
                        if let Some(e) = c.current() {
                            sh += 1;
                            let off: UnitOffset = e.offset();
                            let mut f = hdr.entries_at_offset(&abbrevs, off).map_err(|e| (k, format!("entries_at_offset({:#x}): {:?}", off.0, e)))?;
                            let fres = apply(&mut f, 0);
                            let fcur = cur(&f);
                            if fres != "Ok(true)" || fcur != used {
                                return Err((k, format!("{}: used cursor current()={} ; fresh cursor at {:#x}: {} current()={}", ACTS[a], used, off.0, fres, fcur)));
                            }
                        }
                    }
                    Ok((ae, sh, st))
                });
                ctx.eval(1);
                match r {
                    Err(p) => return ctx.fail_panic("EntriesCursor", &p, render(&acts, acts.len() - 1)),
                    Ok(Err((k, msg))) => {
                        ctx.fail("EntriesCursor", "used-cursor-equals-fresh", if msg.contains("failed read") { "stale-entry-after-error" } else { "entry-differs" }, format!("{}\n  {}", render(&acts, k), msg));
                        return;
                    }
                    Ok(Ok((ae, sh, st))) => {
                        after_err += ae;
                        shown += sh;
                        steps += st;
                    }
                }
            }
            ctx.nontriv(nseq / 9);
            ctx.transitions += steps;
            ctx.outcome_n("cursor:current-after-error", after_err);
            ctx.outcome_n("cursor:entry-compared-with-fresh", shown);
        },
    )]
}

pub fn required() -> Vec<String> {
    ["cursor:current-after-error", "cursor:entry-compared-with-fresh"].iter().map(|s| s.to_string()).collect()
}
