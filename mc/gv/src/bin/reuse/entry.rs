//! C20 groups 2 and 3: a `DebuggingInformationEntry` buffer reused across
//! `EntriesRaw::read_entry` calls, and an `EntriesTree` re-rooted between
//! partial traversals, behave like fresh ones.
use super::dw::*;
use gimli::{Abbreviations, Attribute, DebugAbbrev, DebugInfo, DebuggingInformationEntry, EndianSlice, EntriesTree, EntriesTreeIter, EntriesTreeNode, LittleEndian, UnitHeader, UnitOffset};
use mcx::enc::Enc;
use mcx::space::{seq_count, seq_decode, trees};
use mcx::{guard, Ctx, Sub, Tier};

type R<'a> = EndianSlice<'a, LittleEndian>;

// ---------------------------------------------------------------------------
// Entry buffer

pub const K_E0: usize = 0;
pub const K_E1: usize = 1;
pub const K_E6: usize = 2;
pub const K_E2: usize = 3;
pub const K_NULL: usize = 4;
pub const K_EC: usize = 5;
pub const K_XCODE: usize = 6;
pub const K_XFORM: usize = 7;
pub const K_XEOF: usize = 8;
const KIND_NAMES: [&str; 9] = ["0-attrs", "1-attr", "6-attrs", "2-attrs", "null", "1-attr+children", "ERR:invalid-abbrev-code", "ERR:unknown-indirect-form-after-2-attrs", "ERR:eof-inside-2nd-attr"];
/// attribute count of a successfully read entry of each kind
const KIND_ATTRS: [usize; 6] = [0, 1, 6, 2, 0, 1];

pub fn entry_abbrevs() -> Vec<u8> {
    AbbrevTable::new()
        .decl(1, DW_TAG_COMPILE_UNIT, true, &[(DW_AT_NAME, DW_FORM_STRING)])
        .decl(2, DW_TAG_VARIABLE, false, &[])
        .decl(3, DW_TAG_BASE_TYPE, false, &[(DW_AT_BYTE_SIZE, DW_FORM_DATA1)])
        .decl(
            4,
            DW_TAG_SUBPROGRAM,
            false,
            &[(DW_AT_NAME, DW_FORM_STRING), (DW_AT_LOW_PC, DW_FORM_ADDR), (DW_AT_HIGH_PC, DW_FORM_DATA4), (DW_AT_DECL_FILE, DW_FORM_DATA1), (DW_AT_DECL_LINE, DW_FORM_DATA2), (DW_AT_EXTERNAL, DW_FORM_FLAG_PRESENT)],
        )
        .decl(5, DW_TAG_MEMBER, false, &[(DW_AT_NAME, DW_FORM_STRING), (DW_AT_DATA_MEMBER_LOCATION, DW_FORM_UDATA)])
        .decl(6, DW_TAG_LEXICAL_BLOCK, true, &[(DW_AT_LOW_PC, DW_FORM_ADDR)])
        .decl(7, DW_TAG_TYPEDEF, false, &[(DW_AT_NAME, DW_FORM_STRING), (DW_AT_TYPE, DW_FORM_REF4), (DW_AT_DESCRIPTION, DW_FORM_INDIRECT)])
        .end()
}

fn entry_bytes(kind: usize, e: &mut Enc) {
    match kind {
        K_E0 => {
            e.uleb(2);
        }
        K_E1 => {
            e.uleb(3).u8(7);
        }
        K_E6 => {
            e.uleb(4).cstr(b"fn").addr(0x1000, 4).u32(0x20).u8(1).u16(0x0102);
        }
        K_E2 => {
            e.uleb(5).cstr(b"m").uleb(0x90);
        }
        K_NULL => {
            e.uleb(0);
        }
        K_EC => {
            e.uleb(6).addr(0x2000, 4);
        }
        K_XCODE => {
            e.uleb(9);
        }
        K_XFORM => {
            // DW_FORM_indirect naming form code 0x7e, which DWARF 5 does not define
            e.uleb(7).cstr(b"t").u32(0x0b).uleb(0x7e);
        }
        K_XEOF => {
            // must be the last bytes of the unit: the address is cut short
            e.uleb(4).cstr(b"fn").u16(0x1000);
        }
        _ => unreachable!(),
    }
}

/// (debug_info bytes, unit offsets of the children) for root + `kinds`.
pub fn entry_unit(kinds: &[usize]) -> (Vec<u8>, Vec<usize>) {
    let mut d = Enc::new(false);
    d.uleb(1).cstr(b"u");
    let hs = unit_header_size(4, false, false);
    let mut offs = vec![];
    for &k in kinds {
        offs.push(hs + d.len());
        entry_bytes(k, &mut d);
    }
    (unit(4, false, 4, 0, None, &d.buf), offs)
}

pub type Snap<'a> = (u64, bool, Vec<Attribute<R<'a>>>, usize, isize);

pub fn esnap<'a>(e: &DebuggingInformationEntry<R<'a>>) -> Snap<'a> {
    (e.tag.0 as u64, e.has_children, e.attrs.clone(), e.offset.0, e.depth)
}

pub fn esnap_text(s: &Snap) -> String {
    format!("tag={:#x} children={} offset={:#x} depth={} attrs=[{}]", s.0, s.1, s.3, s.4, s.2.iter().map(|a| format!("{}={:?}", a.name(), a.raw_value())).collect::<Vec<_>>().join(", "))
}

struct BufStats {
    shrink: u64,
    after_err: u64,
    null_after_attrs: u64,
    spare_capacity: u64,
    errs: [u64; 3],
    reads: u64,
}

/// Compare one read into the reused buffer with the same read into a fresh one.
fn compare_read<'a>(
    ctx: &mut Ctx,
    what: &dyn Fn() -> String,
    kind: usize,
    got: gimli::Result<bool>,
    reused: &DebuggingInformationEntry<R<'a>>,
    want: gimli::Result<bool>,
    fresh: &DebuggingInformationEntry<R<'a>>,
) -> bool {
    if got != want {
        ctx.fail("EntriesRaw::read_entry", "result-with-reused-buffer==result-with-fresh-buffer", "history-dependent-result", format!("{}: reused buffer {:?}, fresh buffer {:?}", what(), got, want));
        return false;
    }
    match got {
        Err(_) => {
            // "Some fields in the entry may be modified depending on where the error occurred": content unspecified
            if kind < K_XCODE {
                ctx.fail("EntriesRaw::read_entry", "well-formed-entry-read", "harness-or-parse-error", format!("{}: {:?}", what(), got));
                return false;
            }
        }
        Ok(nonnull) => {
            let (a, b) = (esnap(reused), esnap(fresh));
            if a != b {
                ctx.fail("EntriesRaw::read_entry", "reused-buffer-content==fresh-buffer-content", "stale-buffer-content", format!("{}: reused buffer holds {{{}}}, fresh buffer holds {{{}}}", what(), esnap_text(&a), esnap_text(&b)));
                return false;
            }
            // independent expectation (the harness knows what it encoded)
            if kind >= K_XCODE || a.2.len() != KIND_ATTRS[kind] || nonnull != (kind != K_NULL) || reused.is_null() != (kind == K_NULL) || (kind == K_NULL && (a.0 != 0 || a.1)) {
                ctx.fail("EntriesRaw::read_entry", "entry-matches-encoded-kind", "wrong-entry", format!("{}: read {{{}}} for kind {}", what(), esnap_text(&a), KIND_NAMES[kind]));
                return false;
            }
        }
    }
    true
}

fn note_stats(st: &mut BufStats, kind: usize, prev_len: usize, prev_err: bool, buf: &DebuggingInformationEntry<R>, ok: bool) {
    st.reads += 1;
    if ok {
        if buf.attrs.len() < prev_len {
            st.shrink += 1;
            if kind == K_NULL {
                st.null_after_attrs += 1;
            }
        }
        if prev_err {
            st.after_err += 1;
        }
        if buf.attrs.capacity() > buf.attrs.len() && prev_len > buf.attrs.len() {
            st.spare_capacity += 1;
        }
    } else {
        st.errs[kind - K_XCODE] += 1;
    }
}

fn flush_stats(ctx: &mut Ctx, st: &BufStats) {
    ctx.eval(st.reads * 2);
    ctx.outcome_n("entry-buffer:fewer-attrs-than-previous-read", st.shrink);
    ctx.outcome_n("entry-buffer:read-after-error", st.after_err);
    ctx.outcome_n("entry-buffer:null-after-attrs", st.null_after_attrs);
    ctx.outcome_n("entry-buffer:spare-capacity-from-earlier-entry", st.spare_capacity);
    ctx.outcome_n("entry-buffer:err:invalid-abbrev-code", st.errs[0]);
    ctx.outcome_n("entry-buffer:err:unknown-form-mid-attributes", st.errs[1]);
    ctx.outcome_n("entry-buffer:err:eof-mid-attributes", st.errs[2]);
}

fn new_stats() -> BufStats {
    BufStats { shrink: 0, after_err: 0, null_after_attrs: 0, spare_capacity: 0, errs: [0; 3], reads: 0 }
}

/// Positioned reads: every sequence over the 9 entry kinds; each read uses its
/// own `EntriesRaw` positioned at the entry, all into ONE buffer.
fn positioned_case(ctx: &mut Ctx, prefix: &[usize], rest_max: Option<u32>) {
    let ab = entry_abbrevs();
    let order = [K_E0, K_E1, K_E6, K_E2, K_EC, K_NULL, K_XCODE, K_XFORM, K_XEOF];
    let (info, offs) = entry_unit(&order);
    let mut off_of = [0usize; 9];
    for (i, &k) in order.iter().enumerate() {
        off_of[k] = offs[i];
    }
    let di = DebugInfo::new(&info, LittleEndian);
    let da = DebugAbbrev::new(&ab, LittleEndian);
    let hdr = di.units().next().unwrap().unwrap();
    let abbrevs = hdr.abbreviations(&da).unwrap();
    let mut st = new_stats();
    let n = rest_max.map(|r| seq_count(9, 0, r)).unwrap_or(1);
    for si in 0..n {
        let mut seq = prefix.to_vec();
        if let Some(r) = rest_max {
            seq.extend(seq_decode(9, 0, r, si));
        }
        let mut buf: DebuggingInformationEntry<R> = DebuggingInformationEntry::null();
        let mut prev_err = false;
        for (pos, &k) in seq.iter().enumerate() {
            let prev_len = buf.attrs.len();
            let what = || format!("reads at entries [{}] into one buffer, read #{}", seq[..=pos].iter().map(|&k| KIND_NAMES[k]).collect::<Vec<_>>().join(" ; "), pos + 1);
            let r = guard(|| {
                let mut raw = hdr.entries_raw(&abbrevs, Some(UnitOffset(off_of[k]))).unwrap();
                let mut raw2 = raw.clone();
                let got = raw.read_entry(&mut buf);
                let mut fresh = DebuggingInformationEntry::null();
                let want = raw2.read_entry(&mut fresh);
                (got, want, fresh, (raw.next_offset(), raw.next_depth()) == (raw2.next_offset(), raw2.next_depth()))
            });
            match r {
                Err(p) => {
                    ctx.fail_panic("EntriesRaw::read_entry", &p, what());
                    break;
                }
                Ok((got, want, fresh, same_pos)) => {
                    if !compare_read(ctx, &what, k, got, &buf, want, &fresh) {
                        break;
                    }
                    if !same_pos && got.is_ok() {
                        ctx.fail("EntriesRaw::read_entry", "reader-position-independent-of-buffer", "history-dependent-result", what());
                        break;
                    }
                    note_stats(&mut st, k, prev_len, prev_err, &buf, got.is_ok());
                    prev_err = got.is_err();
                }
            }
        }
        ctx.transitions += seq.len() as u64;
        ctx.traces += 1;
        if si == n / 3 && ctx.want_sample() {
            ctx.sample(format!("unit {} abbrev {}: positioned reads [{}] into one reused DebuggingInformationEntry, each equal to a read into a fresh one", mcx::hex(&info), mcx::hex(&ab), seq.iter().map(|&k| KIND_NAMES[k]).collect::<Vec<_>>().join(" ; ")));
        }
    }
    ctx.nontriv(n);
    flush_stats(ctx, &st);
}

/// Streams: the unit's children are the sequence itself, read by one
/// `EntriesRaw` into one buffer.
fn stream_case(ctx: &mut Ctx, tail: usize, prefix: &[usize], rest_max: Option<u32>) {
    let ab = entry_abbrevs();
    let da = DebugAbbrev::new(&ab, LittleEndian);
    let mut st = new_stats();
    let n = rest_max.map(|r| seq_count(6, 0, r)).unwrap_or(1);
    for si in 0..n {
        let mut seq = prefix.to_vec();
        if let Some(r) = rest_max {
            seq.extend(seq_decode(6, 0, r, si));
        }
        if tail > 0 {
            seq.push(K_XCODE + tail - 1);
        }
        let (info, _) = entry_unit(&seq);
        let di = DebugInfo::new(&info, LittleEndian);
        let hdr: UnitHeader<R> = di.units().next().unwrap().unwrap();
        let abbrevs = hdr.abbreviations(&da).unwrap();
        let mut raw = hdr.entries_raw(&abbrevs, None).unwrap();
        let mut buf: DebuggingInformationEntry<R> = DebuggingInformationEntry::null();
        // the root goes through the same buffer
        if raw.read_entry(&mut buf) != Ok(true) || buf.attrs.len() != 1 {
            ctx.machinery("stream_case: root entry did not parse".into());
            return;
        }
        for (pos, &k) in seq.iter().enumerate() {
            let prev_len = buf.attrs.len();
            let what = || format!("unit {}: sequential reads root ; [{}] into one buffer, read #{}", mcx::hex(&info), seq[..=pos].iter().map(|&k| KIND_NAMES[k]).collect::<Vec<_>>().join(" ; "), pos + 2);
            let mut raw2 = raw.clone();
            let r = guard(|| {
                let got = raw.read_entry(&mut buf);
                let mut fresh = DebuggingInformationEntry::null();
                let want = raw2.read_entry(&mut fresh);
                (got, want, fresh)
            });
            match r {
                Err(p) => {
                    ctx.fail_panic("EntriesRaw::read_entry", &p, what());
                    break;
                }
                Ok((got, want, fresh)) => {
                    if !compare_read(ctx, &what, k, got, &buf, want, &fresh) {
                        break;
                    }
                    if got.is_ok() && (raw.next_offset(), raw.next_depth()) != (raw2.next_offset(), raw2.next_depth()) {
                        ctx.fail("EntriesRaw::read_entry", "reader-position-independent-of-buffer", "history-dependent-result", what());
                        break;
                    }
                    note_stats(&mut st, k, prev_len, false, &buf, got.is_ok());
                    if got.is_err() {
                        break;
                    }
                }
            }
        }
        ctx.transitions += seq.len() as u64 + 1;
        ctx.traces += 1;
        if si == n / 2 && ctx.want_sample() {
            ctx.sample(format!("unit {}: sequential read_entry of root ; [{}] into one reused buffer", mcx::hex(&info), seq.iter().map(|&k| KIND_NAMES[k]).collect::<Vec<_>>().join(" ; ")));
        }
    }
    ctx.nontriv(n);
    flush_stats(ctx, &st);
}

// ---------------------------------------------------------------------------
// EntriesTree::root between partial traversals

pub const A_ROOT: usize = 0;
pub const A_CHILD: usize = 1;
pub const A_NEXT: usize = 2;
pub const A_ABANDON: usize = 3;
const ACT_NAMES: [&str; 4] = ["root()", "children().next()", "next-sibling", "abandon"];

#[derive(Clone, Copy, PartialEq, Debug)]
pub enum Variant {
    Plain,
    Sibling,
    EmptyParents,
    SubRoot,
    ErrAt(usize),
    /// entries after the null that ends the root's children, still inside the unit: a leaf, then
    /// an entry with one child
    Trailing,
    /// the unit ends inside the root entry: after its abbreviation code, before its attribute
    RootCut,
}

pub fn tree_abbrevs() -> Vec<u8> {
    AbbrevTable::new()
        .decl(1, DW_TAG_NAMESPACE, true, &[(DW_AT_DECL_LINE, DW_FORM_DATA1)])
        .decl(2, DW_TAG_VARIABLE, false, &[(DW_AT_DECL_LINE, DW_FORM_DATA1)])
        .decl(3, DW_TAG_STRUCTURE_TYPE, true, &[(DW_AT_SIBLING, DW_FORM_REF4), (DW_AT_DECL_LINE, DW_FORM_DATA1)])
        .end()
}

/// Encode the tree `parent` (preorder parent vector); returns the unit bytes
/// and the unit offset of every node.
pub fn tree_unit(parent: &[usize], v: Variant) -> (Vec<u8>, Vec<usize>) {
    let n = parent.len();
    let hs = unit_header_size(4, false, false);
    let mut kids: Vec<Vec<usize>> = vec![vec![]; n];
    for i in 1..n {
        kids[parent[i]].push(i);
    }
    fn rec(i: usize, kids: &[Vec<usize>], v: Variant, hs: usize, d: &mut Enc, offs: &mut Vec<usize>) {
        offs[i] = hs + d.len();
        let inner = !kids[i].is_empty();
        let code = match v {
            Variant::ErrAt(k) if k == i => 9,
            Variant::Sibling if inner => 3,
            Variant::EmptyParents => 1,
            _ if inner => 1,
            _ => 2,
        };
        d.uleb(code);
        let mut patch = None;
        if code == 3 {
            patch = Some(d.len());
            d.u32(0);
        }
        d.u8(i as u8 + 1);
        let has_children_flag = code == 1 || code == 3 || (code == 9 && inner);
        if has_children_flag {
            for &c in &kids[i] {
                rec(c, kids, v, hs, d, offs);
            }
            d.uleb(0);
        }
        if let Some(p) = patch {
            // offset of whatever follows this subtree (next sibling or the parent's null)
            d.patch_uint(p, (hs + d.len()) as u64, 4);
        }
    }
    let mut d = Enc::new(false);
    let mut offs = vec![0; n];
    rec(0, &kids, v, hs, &mut d, &mut offs);
    if v == Variant::RootCut {
        // abbreviation code 1 (one data1 attribute, children) and nothing else
        d = Enc::new(false);
        d.uleb(1);
    }
    if v == Variant::Trailing {
        if kids[0].is_empty() {
            // a root without children flag has no terminator of its own
            d.uleb(0);
        }
        d.uleb(2).u8(0x70);
        d.uleb(1).u8(0x71);
        d.uleb(2).u8(0x72);
        d.uleb(0);
    }
    (unit(4, false, 4, 0, None, &d.buf), offs)
}

#[derive(Clone, PartialEq, Debug)]
pub enum Obs<'a> {
    Node(Snap<'a>),
    NoMore,
    Err(gimli::Error),
}

pub fn obs_text(o: &[Obs]) -> String {
    o.iter()
        .map(|x| match x {
            Obs::Node(s) => format!("node(off={:#x},depth={},tag={:#x},id={})", s.3, s.4, s.0, s.2.last().map(|a| format!("{:?}", a.raw_value())).unwrap_or_default()),
            Obs::NoMore => "None".into(),
            Obs::Err(e) => format!("Err({:?})", e),
        })
        .collect::<Vec<_>>()
        .join(" ")
}

#[derive(PartialEq, Clone, Copy)]
enum Sig {
    Done,
    Root,
    Abandon,
    Next,
    Failed,
}

struct Prog<'p> {
    acts: &'p [usize],
    pos: usize,
}

impl<'p> Prog<'p> {
    fn next(&mut self) -> Option<usize> {
        let a = self.acts.get(self.pos).copied();
        if a.is_some() {
            self.pos += 1;
        }
        a
    }
}

fn at_node<'a, 'abbrev, 'tree>(node: EntriesTreeNode<'abbrev, 'tree, R<'a>>, prog: &mut Prog, out: &mut Vec<Obs<'a>>) -> Sig {
    out.push(Obs::Node(esnap(node.entry())));
    match prog.next() {
        None => Sig::Done,
        Some(A_ROOT) => Sig::Root,
        Some(A_ABANDON) => Sig::Abandon,
        Some(A_NEXT) => Sig::Next,
        Some(_) => {
            let mut it = node.children();
            in_iter(&mut it, prog, out)
        }
    }
}

fn in_iter<'a, 'abbrev, 'tree>(it: &mut EntriesTreeIter<'abbrev, 'tree, R<'a>>, prog: &mut Prog, out: &mut Vec<Obs<'a>>) -> Sig {
    loop {
        match it.next() {
            Err(e) => {
                out.push(Obs::Err(e));
                return Sig::Failed;
            }
            Ok(None) => {
                out.push(Obs::NoMore);
                match prog.next() {
                    None => return Sig::Done,
                    Some(A_ROOT) => return Sig::Root,
                    Some(A_ABANDON) => return Sig::Abandon,
                    Some(A_NEXT) => return Sig::Next,
                    Some(_) => continue, // asks the exhausted iterator again
                }
            }
            Ok(Some(child)) => match at_node(child, prog, out) {
                Sig::Next => continue,
                s => return s,
            },
        }
    }
}

/// Run `acts` (with an implicit leading root()) on `tree`; one observation
/// list per root() call. Also reports whether a root() followed an unfinished
/// traversal / an error.
pub fn run_tree<'a, 'abbrev>(tree: &mut EntriesTree<'abbrev, R<'a>>, acts: &[usize]) -> (Vec<(usize, usize, Vec<Obs<'a>>)>, u64, u64) {
    let mut prog = Prog { acts, pos: 0 };
    let mut segs = vec![];
    let (mut reroot_partial, mut reroot_err) = (0, 0);
    loop {
        let start = prog.pos;
        let mut out = vec![];
        let sig = match tree.root() {
            Err(e) => {
                out.push(Obs::Err(e));
                Sig::Failed
            }
            Ok(node) => at_node(node, &mut prog, &mut out),
        };
        // Abandoned / failed / sibling-of-root: everything up to the next root() is a no-op.
        let mut sig = sig;
        if matches!(sig, Sig::Abandon | Sig::Failed | Sig::Next) {
            let failed = sig == Sig::Failed;
            sig = Sig::Done;
            while let Some(a) = prog.next() {
                if a == A_ROOT {
                    sig = Sig::Root;
                    if failed {
                        reroot_err += 1;
                    }
                    break;
                }
            }
        }
        let end = if sig == Sig::Root { prog.pos - 1 } else { prog.pos };
        segs.push((start, end, out));
        if sig != Sig::Root {
            break;
        }
        reroot_partial += 1;
    }
    (segs, reroot_partial, reroot_err)
}

fn tree_configs(max_nodes: usize) -> Vec<(Vec<usize>, Variant)> {
    let mut v = vec![];
    for n in 1..=max_nodes {
        for t in trees(n) {
            v.push((t.clone(), Variant::Plain));
            v.push((t.clone(), Variant::EmptyParents));
            if n == 1 {
                v.push((t.clone(), Variant::RootCut));
            }
            if n >= 2 {
                v.push((t.clone(), Variant::Sibling));
                v.push((t.clone(), Variant::SubRoot));
                for k in 1..n {
                    v.push((t.clone(), Variant::ErrAt(k)));
                }
            }
        }
    }
    v
}

fn tree_case(ctx: &mut Ctx, cfg: &(Vec<usize>, Variant), prefix: &[usize], rest: u32) {
    let ab = tree_abbrevs();
    let (info, offs) = tree_unit(&cfg.0, cfg.1);
    let di = DebugInfo::new(&info, LittleEndian);
    let da = DebugAbbrev::new(&ab, LittleEndian);
    let hdr = di.units().next().unwrap().unwrap();
    let abbrevs: Abbreviations = hdr.abbreviations(&da).unwrap();
    let at = if cfg.1 == Variant::SubRoot { Some(UnitOffset(offs[1])) } else { None };
    let n = 4u64.pow(rest);
    let mut acts: Vec<usize> = prefix.to_vec();
    acts.extend(std::iter::repeat(0).take(rest as usize));
    let pl = prefix.len();
    let (mut rp, mut re, mut evals, mut errs) = (0u64, 0u64, 0u64, 0u64);
    for si in 0..n {
        let mut x = si;
        for k in 0..rest as usize {
            acts[pl + k] = (x % 4) as usize;
            x /= 4;
        }
        let render = |acts: &[usize]| format!("tree {:?} {:?} unit {}: root() ; {}", cfg.0, cfg.1, mcx::hex(&info), acts.iter().map(|&a| ACT_NAMES[a]).collect::<Vec<_>>().join(" ; "));
        let r = guard(|| {
            let mut tree = hdr.entries_tree(&abbrevs, at).unwrap();
            let (segs, p, e) = run_tree(&mut tree, &acts);
            // oracle: every segment on a freshly constructed tree
            let mut bad = None;
            for (j, (s, t, obs)) in segs.iter().enumerate() {
                let mut fresh = hdr.entries_tree(&abbrevs, at).unwrap();
                let (fs, _, _) = run_tree(&mut fresh, &acts[*s..*t]);
                if fs.len() != 1 || fs[0].2 != *obs {
                    bad = Some((j, *s, *t, obs_text(obs), fs.iter().map(|x| obs_text(&x.2)).collect::<Vec<_>>().join(" // ")));
                    break;
                }
            }
            let nerr = segs.iter().filter(|s| matches!(s.2.last(), Some(Obs::Err(_)))).count() as u64;
            (segs.len() as u64, p, e, nerr, bad)
        });
        match r {
            Err(p) => ctx.fail_panic("EntriesTree::root", &p, render(&acts)),
            Ok((nseg, p, e, nerr, bad)) => {
                evals += 2 * nseg;
                rp += p;
                re += e;
                errs += nerr;
                if let Some((j, s, t, got, want)) = bad {
                    ctx.fail(
                        "EntriesTree::root",
                        "traversal-after-reroot==traversal-of-fresh-tree",
                        "history-dependent-result",
                        format!("{}: traversal #{} (actions {}..{}) on the re-rooted tree observed [{}]; on a fresh tree [{}]", render(&acts), j + 1, s, t, got, want),
                    );
                }
            }
        }
        ctx.transitions += acts.len() as u64 + 1;
        ctx.traces += 1;
        if si == (n / 3) * 2 + 6 && ctx.want_sample() {
            ctx.sample(render(&acts));
        }
    }
    ctx.eval(evals);
    ctx.nontriv(n);
    ctx.outcome_n("tree:root-after-earlier-traversal", rp);
    ctx.outcome_n("tree:root-after-error", re);
    ctx.outcome_n("tree:traversal-ended-in-error", errs);
    ctx.outcome(&format!("tree:variant:{}", match cfg.1 {
        Variant::Plain => "plain",
        Variant::Sibling => "sibling-attrs",
        Variant::EmptyParents => "empty-parents",
        Variant::SubRoot => "rooted-at-child-offset",
        Variant::ErrAt(_) => "invalid-code-node",
        Variant::Trailing => "entries-after-root-terminator",
        Variant::RootCut => "unit-ends-inside-root-entry",
    }));
}

/// Bijection on 0..n that spreads expensive neighbouring cases over the workers.
pub fn scramble(i: u64, n: u64) -> u64 {
    assert!(n % 1_000_003 != 0); // 1_000_003 is prime, so it is coprime to n
    ((i as u128 * 1_000_003u128) % n as u128) as u64
}

pub fn subs(_cli_tier: Tier) -> Vec<Sub> {
    let tier = Tier::Thorough; // the thorough bounds of this group cost ~5 s: both tiers run them
    let mut v = vec![];
    let pl: u32 = tier.pick(4, 5);
    v.push(Sub::new(
        &format!("entry-buffer-positioned-len{}", pl + 1),
        9 * 10,
        &format!("every sequence of 1..={} reads over 9 entry kinds (0/1/6/2 attributes, null, entry with children, invalid abbreviation code, unknown indirect form after 2 attributes, EOF inside the 2nd attribute), each through its own EntriesRaw positioned at the entry, all into ONE DebuggingInformationEntry; compared field by field with a read into a fresh buffer", pl + 1),
        move |ctx, i| {
            let i = scramble(i, 90);
            let (first, second) = ((i % 9) as usize, (i / 9) as usize);
            if second == 9 {
                positioned_case(ctx, &[first], None)
            } else {
                positioned_case(ctx, &[first, second], Some(pl - 1))
            }
        },
    ));
    let sl: u32 = tier.pick(4, 6);
    v.push(Sub::new(
        &format!("entry-buffer-stream-len{}", sl + 1),
        6 * 7 * 4,
        &format!("every unit whose children are a sequence of 1..={} entries over 6 kinds (0/1/6/2 attributes, null, entry with children) optionally followed by one of 3 failing entries, read sequentially by one EntriesRaw (root included) into ONE buffer; each read compared with a fresh buffer", sl + 1),
        move |ctx, i| {
            let i = scramble(i, 168);
            let (first, second, tail) = ((i % 6) as usize, ((i / 6) % 7) as usize, (i / 42) as usize);
            if second == 6 {
                stream_case(ctx, tail, &[first], None)
            } else {
                stream_case(ctx, tail, &[first, second], Some(sl - 1))
            }
        },
    ));
    let (nodes, len): (usize, u32) = tier.pick((4, 6), (5, 8));
    let cfgs = tree_configs(nodes);
    let ncfg = cfgs.len() as u64;
    let pre = 2u32;
    v.push(Sub::new(
        &format!("entries-tree-reroot-n{}-len{}", nodes, len),
        ncfg * 4u64.pow(pre),
        &format!(
            "every sequence of exactly {} actions (shorter ones are prefixes) over {{root(), children().next(), next sibling, abandon}} after an initial root(), on every ordered tree with <= {} nodes x {{plain, leaves declared with children, DW_AT_sibling on inner nodes, tree rooted at the first child's offset, invalid abbreviation code at node k, unit ending inside the root entry}} ({} configurations); each traversal that follows a root() is compared with the same traversal on a freshly constructed EntriesTree",
            len, nodes, ncfg
        ),
        move |ctx, i| {
            let i = scramble(i, ncfg * 4u64.pow(pre));
            let cfg = &cfgs[(i % ncfg) as usize];
            let mut r = i / ncfg;
            let mut prefix = vec![];
            for _ in 0..pre {
                prefix.push((r % 4) as usize);
                r /= 4;
            }
            tree_case(ctx, cfg, &prefix, len - pre)
        },
    ));
    v
}

pub fn required() -> Vec<String> {
    [
        "entry-buffer:fewer-attrs-than-previous-read",
        "entry-buffer:read-after-error",
        "entry-buffer:null-after-attrs",
        "entry-buffer:spare-capacity-from-earlier-entry",
        "entry-buffer:err:invalid-abbrev-code",
        "entry-buffer:err:unknown-form-mid-attributes",
        "entry-buffer:err:eof-mid-attributes",
        "tree:root-after-earlier-traversal",
        "tree:root-after-error",
        "tree:traversal-ended-in-error",
        "tree:variant:plain",
        "tree:variant:sibling-attrs",
        "tree:variant:empty-parents",
        "tree:variant:rooted-at-child-offset",
        "tree:variant:invalid-code-node",
    ]
    .iter()
    .map(|s| s.to_string())
    .collect()
}
