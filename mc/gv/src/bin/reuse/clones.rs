//! C20 group 4: every Clone-able iterator, cloned at EVERY position, continues
//! independently of the original: both produce the suffix a straight run
//! produces. `LineRows` resumed from every sequence in every order.
use super::dw::*;
use super::entry::{self, Variant};
use super::unwind;
use gimli::{
    DebugAbbrev, DebugAddr, DebugAranges, DebugCuIndex, DebugFrame, DebugInfo, DebugLine, DebugLineOffset, DebugMacinfo, DebugMacinfoOffset, DebugMacro, DebugMacroOffset, DebugNames, DebugPubNames, DebugPubTypes,
    DebugTypes, DebuggingInformationEntry, Encoding, EndianSlice, Expression, Format, LittleEndian, UnwindContext, UnwindSection,
};
use mcx::enc::Enc;
use mcx::space::{seq_count, seq_decode};
use mcx::{guard, Ctx, Sub, Tier};

type R<'a> = EndianSlice<'a, LittleEndian>;

pub enum Step {
    Item(String),
    End,
    Err(String),
}

impl Step {
    fn terminal(&self) -> bool {
        !matches!(self, Step::Item(_))
    }
    fn text(self) -> String {
        match self {
            Step::Item(s) => s,
            Step::End => "<end>".into(),
            Step::Err(e) => format!("<Err {}>", e),
        }
    }
}

fn res<T: std::fmt::Debug>(r: gimli::Result<Option<T>>) -> Step {
    match r {
        Ok(Some(x)) => Step::Item(format!("{:?}", x)),
        Ok(None) => Step::End,
        Err(e) => Step::Err(format!("{:?}", e)),
    }
}

const CAP: usize = 300;

/// Clone `make()` at every position of its run and continue clone and
/// original (three schedules); all must reproduce the straight run's suffix.
fn check<I: Clone>(ctx: &mut Ctx, name: &str, input: &str, make: &dyn Fn() -> I, step: &dyn Fn(&mut I, usize) -> Step) {
    let entry = format!("{}::clone", name);
    let r = guard(|| {
        // straight run: up to the first terminal result plus one more call
        let mut it = make();
        let mut straight: Vec<String> = vec![];
        let mut term_err = false;
        loop {
            let s = step(&mut it, straight.len());
            let t = s.terminal();
            if let Step::Err(_) = s {
                term_err = true;
            }
            straight.push(s.text());
            if t || straight.len() >= CAP {
                let s2 = step(&mut it, straight.len());
                straight.push(format!("(after the end) {}", s2.text()));
                break;
            }
        }
        let total = straight.len();
        let mut evals = total as u64;
        let mut bad: Option<String> = None;
        'pos: for p in 0..total {
            for sched in 0..3 {
                let mut a = make();
                for k in 0..p {
                    let s = step(&mut a, k).text();
                    let s = if k == total - 1 { format!("(after the end) {}", s) } else { s };
                    if s != straight[k] {
                        bad = Some(format!("non-deterministic prefix at step {}: {} vs {}", k, s, straight[k]));
                        break 'pos;
                    }
                }
                evals += p as u64;
                let mut b = a.clone();
                let mut ra: Vec<String> = vec![];
                let mut rb: Vec<String> = vec![];
                let fix = |k: usize, s: String| if k == total - 1 { format!("(after the end) {}", s) } else { s };
                match sched {
                    0 => {
                        // clone first, then the original
                        for k in p..total {
                            rb.push(fix(k, step(&mut b, k).text()));
                        }
                        for k in p..total {
                            ra.push(fix(k, step(&mut a, k).text()));
                        }
                    }
                    1 => {
                        // interleaved, original first
                        for k in p..total {
                            ra.push(fix(k, step(&mut a, k).text()));
                            rb.push(fix(k, step(&mut b, k).text()));
                        }
                    }
                    _ => {
                        // original runs to the end and is dropped before the clone starts
                        for k in p..total {
                            ra.push(fix(k, step(&mut a, k).text()));
                        }
                        drop(a);
                        for k in p..total {
                            rb.push(fix(k, step(&mut b, k).text()));
                        }
                    }
                }
                evals += 2 * (total - p) as u64;
                for (who, got) in [("original", &ra), ("clone", &rb)] {
                    if got[..] != straight[p..] {
                        let k = (0..got.len()).find(|&k| got[k] != straight[p + k]).unwrap_or(0);
                        bad = Some(format!(
                            "cloned after {} of {} steps (schedule {}): the {} produced {} at step {}, the straight run produced {}",
                            p,
                            total,
                            ["clone-then-original", "interleaved", "original-then-drop-then-clone"][sched],
                            who,
                            got[k],
                            p + k,
                            straight[p + k]
                        ));
                        break 'pos;
                    }
                }
            }
        }
        (straight, evals, bad, term_err)
    });
    match r {
        Err(p) => ctx.fail_panic(&entry, &p, format!("{} on {}", name, input)),
        Ok((straight, evals, bad, term_err)) => {
            ctx.eval(evals);
            ctx.nontriv(straight.len() as u64);
            ctx.transitions += evals;
            ctx.traces += 3 * straight.len() as u64;
            ctx.outcome(&format!("clone:{}", name));
            ctx.outcome_n("clone:positions", straight.len() as u64);
            ctx.outcome(if term_err { "clone:run-ends-in-error" } else { "clone:run-ends-normally" });
            if straight.len() < 3 {
                ctx.machinery(format!("{}: straight run has only {} steps ({:?}); input {}", name, straight.len(), straight, input));
            }
            if let Some(b) = bad {
                ctx.fail(&entry, "clone-and-original-produce-the-straight-run-suffix", "clone-not-independent", format!("{} on {}: {}", name, input, b));
            }
            if ctx.want_sample() {
                let mut s = straight.join(" ; ");
                if s.len() > 700 {
                    s.truncate(700);
                    s.push_str("...");
                }
                ctx.sample(format!("{} on {}: cloned at each of {} positions x 3 schedules; straight run: {}", name, input, straight.len(), s));
            }
        }
    }
}

// ---------------------------------------------------------------------------
// Inputs

fn info_units() -> (Vec<u8>, Vec<u8>) {
    let ab = AbbrevTable::new().decl(1, DW_TAG_COMPILE_UNIT, false, &[(DW_AT_NAME, DW_FORM_STRING)]).end();
    let mut info = vec![];
    info.extend(unit(4, false, 8, 0, None, &[1, b'a', 0]));
    info.extend(unit(5, true, 4, 0, None, &[1, b'b', 0]));
    info.extend(unit(2, false, 4, 0, None, &[1, b'c', 0]));
    info.extend(unit(5, false, 8, 0, Some((0xdead_beef, 24)), &[1, b'd', 0]));
    // a header cut short: length says 20, 3 bytes follow
    info.extend([20, 0, 0, 0, 4, 0, 0]);
    (info, ab)
}

fn types_units() -> Vec<u8> {
    let mut t = vec![];
    let hs = unit_header_size(4, false, true) as u64;
    t.extend(unit(4, false, 8, 0, Some((1, hs)), &[1, b'a', 0]));
    t.extend(unit(4, true, 4, 0, Some((2, unit_header_size(4, true, true) as u64)), &[1, b'b', 0]));
    t.extend(unit(3, false, 4, 0, Some((3, hs)), &[1, b'c', 0]));
    t
}

fn line_good() -> Vec<u8> {
    let p = LineProg::new()
        .set_address(0x1000, 8)
        .special(0x14)
        .special(0x50)
        .advance_pc(3)
        .copy()
        .special(0xf0)
        .end_sequence()
        .set_address(0x2000, 8)
        .set_file(2)
        .set_column(5)
        .negate_stmt()
        .special(0x21)
        .define_file(b"c.c", 1, 0, 0)
        .set_file(3)
        .special(0x33)
        .const_add_pc()
        .fixed_advance_pc(0x10)
        .prologue_end()
        .epilogue_begin()
        .basic_block()
        .set_isa(3)
        .discriminator(7)
        .copy()
        .advance_line(5)
        .special(0x0d)
        .end_sequence()
        .end_sequence()
        .set_address(0x3000, 8)
        .special(0x2a)
        .advance_pc(1)
        .end_sequence();
    line_program_v4(&p.0.buf)
}

fn line_bad() -> Vec<u8> {
    // good prefix, then an extended opcode whose length runs past the end
    let p = LineProg::new().set_address(0x1000, 8).special(0x14).define_file(b"d.c", 0, 0, 0).special(0x50).end_sequence().special(0x30).raw(&[0x00, 0x20, 0x02, 0x01]);
    line_program_v4(&p.0.buf)
}

fn expr_bytes() -> Vec<u8> {
    let mut e = Enc::new(false);
    e.u8(0x03).u64(0x1122334455667788); // DW_OP_addr
    e.u8(0x08).u8(0x2a); // DW_OP_const1u
    e.u8(0x11).sleb(-300); // DW_OP_consts
    e.u8(0x12); // DW_OP_dup
    e.u8(0x22); // DW_OP_plus
    e.u8(0x23).uleb(17); // DW_OP_plus_uconst
    e.u8(0x28).u16(2); // DW_OP_bra +2
    e.u8(0x2f).u16(0); // DW_OP_skip 0
    e.u8(0x50); // DW_OP_reg0
    e.u8(0x93).uleb(4); // DW_OP_piece 4
    e.u8(0x71).sleb(-8); // DW_OP_breg1 -8
    e.u8(0x91).sleb(16); // DW_OP_fbreg 16
    e.u8(0x9c); // DW_OP_call_frame_cfa
    e.u8(0x9f); // DW_OP_stack_value
    e.u8(0x93).uleb(4);
    e.u8(0xa3).uleb(1).u8(0x51); // DW_OP_entry_value { DW_OP_reg1 }
    e.u8(0x96); // DW_OP_nop
    e.u8(0x02); // 0x02 is not an operation
    e.buf
}

fn aranges_bytes() -> Vec<u8> {
    let mut out = Enc::new(false);
    for (i, asz) in [(0u64, 8u8), (1, 4)] {
        let mut b = Enc::new(false);
        b.u16(2).u32(0x40 * i as u32).u8(asz).u8(0);
        // pad so the first tuple is aligned to 2*address_size from the start of the set
        while (b.len() + 4) % (2 * asz as usize) != 0 {
            b.u8(0);
        }
        for k in 0..3u64 {
            b.addr(0x1000 * (k + 1) + i, asz).addr(0x10 + k, asz);
        }
        b.addr(0, asz).addr(0, asz);
        out.with_length(false, &b);
    }
    // third set: version 7
    let mut b = Enc::new(false);
    b.u16(7).u32(0).u8(4).u8(0);
    out.with_length(false, &b);
    out.buf
}

fn pub_bytes() -> Vec<u8> {
    let mut out = Enc::new(false);
    for i in 0..2u32 {
        let mut b = Enc::new(false);
        b.u16(2).u32(0x100 * i).u32(0x80);
        for k in 0..3u32 {
            b.u32(0x0b + k).cstr(format!("name{}_{}", i, k).as_bytes());
        }
        b.u32(0);
        out.with_length(false, &b);
    }
    let mut b = Enc::new(false);
    b.u16(5).u32(0).u32(0);
    out.with_length(false, &b);
    out.buf
}

fn macinfo_bytes() -> Vec<u8> {
    let mut e = Enc::new(false);
    e.u8(3).uleb(0).uleb(1); // DW_MACINFO_start_file
    e.u8(1).uleb(1).cstr(b"A 1"); // define
    e.u8(2).uleb(2).cstr(b"A"); // undef
    e.u8(255).uleb(9).cstr(b"vendor"); // vendor_ext
    e.u8(4); // end_file
    e.u8(0x7b); // not a macinfo type
    e.buf
}

fn macro_bytes() -> Vec<u8> {
    let mut e = Enc::new(false);
    e.u16(5).u8(0x02).u32(0); // version 5, debug_line_offset present, 32-bit
    e.u8(3).uleb(0).uleb(1); // DW_MACRO_start_file
    e.u8(1).uleb(1).cstr(b"A 1"); // define
    e.u8(5).uleb(2).u32(0x10); // define_strp
    e.u8(6).uleb(3).u32(0x20); // undef_strp
    e.u8(7).u32(0x30); // import
    e.u8(2).uleb(4).cstr(b"A"); // undef
    e.u8(4); // end_file
    e.u8(0); // end
    e.buf
}

fn addr_bytes() -> Vec<u8> {
    let mut out = Enc::new(false);
    for (i, asz) in [(0u64, 8u8), (1, 4)] {
        let mut b = Enc::new(false);
        b.u16(5).u8(asz).u8(0);
        for k in 0..4u64 {
            b.addr(0x1000 * (k + 1) + i, asz);
        }
        out.with_length(false, &b);
    }
    let mut b = Enc::new(false);
    b.u16(4).u8(4).u8(0);
    out.with_length(false, &b);
    out.buf
}

/// Two DWARF 5 name index headers (only the headers matter to the header
/// iterator: DWARF 5 section 6.1.1.4.1) and a third with version 4.
fn names_bytes() -> Vec<u8> {
    let mut out = Enc::new(false);
    for (i, aug) in [(0u32, &b"LLVM0700"[..]), (1, &b"GNU\0\0"[..])] {
        let mut b = Enc::new(false);
        b.u16(5).u16(0); // version, padding
        b.u32(1 + i).u32(0).u32(0); // comp_unit_count, local_type_unit_count, foreign_type_unit_count
        b.u32(2).u32(3).u32(7); // bucket_count, name_count, abbrev_table_size
        b.u32(aug.len() as u32).bytes(aug);
        while b.len() % 4 != 0 {
            b.u8(0);
        }
        b.bytes(&[0xaa; 12]); // body (not interpreted by the header iterator)
        out.with_length(false, &b);
    }
    let mut b = Enc::new(false);
    b.u16(4).u16(0).bytes(&[0; 28]);
    out.with_length(false, &b);
    out.buf
}

/// DWARF 5 `.debug_cu_index` (section 7.3.5.3): 2 units, 4 slots, 4 columns.
fn cu_index_bytes() -> Vec<u8> {
    let mut b = Enc::new(false);
    b.u16(5).u16(0).u32(4).u32(2).u32(4); // version, padding, section_count, unit_count, slot_count
    for id in [0u64, 0x1111_2222_3333_4445, 0x5555_6666_7777_8886, 0] {
        b.u64(id);
    }
    for row in [0u32, 1, 2, 0] {
        b.u32(row);
    }
    for sect in [1u32, 3, 4, 6] {
        b.u32(sect); // DW_SECT_INFO, DW_SECT_ABBREV, DW_SECT_LINE, DW_SECT_STR_OFFSETS
    }
    for v in [0u32, 0, 0, 0, 0x40, 0x20, 0x30, 0x10] {
        b.u32(v); // offsets
    }
    for v in [0x40u32, 0x20, 0x30, 0x10, 0x44, 0x24, 0x34, 0x14] {
        b.u32(v); // sizes
    }
    b.buf
}

// ---------------------------------------------------------------------------
// Instances

const N_INSTANCES: u64 = 29;

fn instance(ctx: &mut Ctx, i: u64) {
    match i {
        0 => {
            let (info, _) = info_units();
            let di = DebugInfo::new(&info, LittleEndian);
            check(ctx, "DebugInfoUnitHeadersIter", &mcx::hex(&info), &|| di.units(), &|it, _| res(it.next()));
        }
        1 => {
            let t = types_units();
            let dt = DebugTypes::new(&t, LittleEndian);
            check(ctx, "DebugTypesUnitHeadersIter", &mcx::hex(&t), &|| dt.units(), &|it, _| res(it.next()));
        }
        2 | 3 => {
            // EntriesRaw over a DIE stream (with / without a failing entry at the end)
            let ab = entry::entry_abbrevs();
            let mut kinds = vec![entry::K_E6, entry::K_EC, entry::K_E1, entry::K_E2, entry::K_NULL, entry::K_E0, entry::K_E6];
            kinds.push(if i == 2 { entry::K_NULL } else { entry::K_XFORM });
            let (info, _) = entry::entry_unit(&kinds);
            let di = DebugInfo::new(&info, LittleEndian);
            let da = DebugAbbrev::new(&ab, LittleEndian);
            let hdr = di.units().next().unwrap().unwrap();
            let abbrevs = hdr.abbreviations(&da).unwrap();
            check(ctx, "EntriesRaw", &mcx::hex(&info), &|| hdr.entries_raw(&abbrevs, None).unwrap(), &|it, _| {
                if it.is_empty() {
                    return Step::End;
                }
                let mut e = DebuggingInformationEntry::null();
                match it.read_entry(&mut e) {
                    Ok(b) => Step::Item(format!("{} {} next={:#x}/{}", b, entry::esnap_text(&entry::esnap(&e)), it.next_offset().0, it.next_depth())),
                    Err(e) => Step::Err(format!("{:?}", e)),
                }
            });
        }
        4..=9 => {
            // EntriesCursor: next_entry / next_dfs / next_sibling / mixed, on two trees
            let ab = entry::tree_abbrevs();
            let parent = [usize::MAX, 0, 1, 1, 0, 4, 0];
            let variant = if i % 2 == 0 { Variant::Sibling } else { Variant::ErrAt(5) };
            let (info, _) = entry::tree_unit(&parent, variant);
            let di = DebugInfo::new(&info, LittleEndian);
            let da = DebugAbbrev::new(&ab, LittleEndian);
            let hdr = di.units().next().unwrap().unwrap();
            let abbrevs = hdr.abbreviations(&da).unwrap();
            let mode = (i - 4) / 2; // 0: next_entry, 1: next_dfs, 2: mixed with next_sibling
            let name = ["EntriesCursor(next_entry)", "EntriesCursor(next_dfs)", "EntriesCursor(next_entry,next_sibling,next_dfs)"][mode as usize];
            check(ctx, name, &format!("{:?} {}", variant, mcx::hex(&info)), &|| hdr.entries(&abbrevs), &|it, k| {
                let cur = |it: &gimli::EntriesCursor<R>| match it.current() {
                    Some(e) => entry::esnap_text(&entry::esnap(e)),
                    None => format!("null off={:#x} depth={}", it.offset().0, it.depth()),
                };
                let op = if mode == 2 { [0, 0, 2, 1, 2, 2, 1][k % 7] } else { mode };
                match op {
                    0 => match it.next_entry() {
                        Ok(true) => Step::Item(format!("next_entry {} next={:#x}/{}", cur(it), it.next_offset().0, it.next_depth())),
                        Ok(false) => Step::End,
                        Err(e) => Step::Err(format!("{:?}", e)),
                    },
                    1 => match it.next_dfs() {
                        Ok(Some(_)) => Step::Item(format!("next_dfs {}", cur(it))),
                        Ok(None) => Step::End,
                        Err(e) => Step::Err(format!("{:?}", e)),
                    },
                    _ => match it.next_sibling() {
                        Ok(Some(_)) => Step::Item(format!("next_sibling {}", cur(it))),
                        // "no sibling" is not the end of the run in the mixed mode
                        Ok(None) => Step::Item(format!("next_sibling None; {}", cur(it))),
                        Err(e) => Step::Err(format!("{:?}", e)),
                    },
                }
            });
        }
        10 | 11 => {
            // EntriesTree cloned between traversals
            let ab = entry::tree_abbrevs();
            let parent = [usize::MAX, 0, 1, 1, 0, 4];
            let variant = if i == 10 { Variant::Sibling } else { Variant::ErrAt(4) };
            let (info, _) = entry::tree_unit(&parent, variant);
            let di = DebugInfo::new(&info, LittleEndian);
            let da = DebugAbbrev::new(&ab, LittleEndian);
            let hdr = di.units().next().unwrap().unwrap();
            let abbrevs = hdr.abbreviations(&da).unwrap();
            let progs: [&[usize]; 6] = [&[1], &[1, 1, 2], &[1, 2, 2, 1], &[1, 1, 1, 2, 2, 2, 1], &[1, 2, 1, 1], &[]];
            check(ctx, "EntriesTree", &format!("{:?} {}", variant, mcx::hex(&info)), &|| hdr.entries_tree(&abbrevs, None).unwrap(), &|it, k| {
                if k >= progs.len() {
                    return Step::End;
                }
                let (segs, _, _) = entry::run_tree(it, progs[k]);
                Step::Item(segs.iter().map(|s| entry::obs_text(&s.2)).collect::<Vec<_>>().join(" // "))
            });
        }
        12 | 13 => {
            let l = if i == 12 { line_good() } else { line_bad() };
            let dl = DebugLine::new(&l, LittleEndian);
            check(ctx, "LineRows(one-shot)", &mcx::hex(&l), &|| dl.program(DebugLineOffset(0), 8, None, None).unwrap().rows(), &|it, _| match it.next_row() {
                Ok(Some((h, r))) => Step::Item(format!("{:?} files={}", r, h.file_names().len())),
                Ok(None) => Step::End,
                Err(e) => Step::Err(format!("{:?}", e)),
            });
        }
        14 | 15 => {
            let l = if i == 14 { line_good() } else { line_bad() };
            let dl = DebugLine::new(&l, LittleEndian);
            let prog = dl.program(DebugLineOffset(0), 8, None, None).unwrap();
            let h = prog.header().clone();
            check(ctx, "LineInstructions", &mcx::hex(&l), &|| h.instructions(), &|it, _| res(it.next_instruction(&h)));
        }
        16 => {
            // resumed rows of every sequence
            let l = line_good();
            let dl = DebugLine::new(&l, LittleEndian);
            let (prog, seqs) = dl.program(DebugLineOffset(0), 8, None, None).unwrap().sequences().unwrap();
            for s in &seqs {
                check(ctx, "LineRows(resumed)", &format!("sequence {:#x}..{:#x} of {}", s.start, s.end, mcx::hex(&l)), &|| prog.resume_from(s), &|it, _| match it.next_row() {
                    Ok(Some((h, r))) => Step::Item(format!("{:?} files={}", r, h.file_names().len())),
                    Ok(None) => Step::End,
                    Err(e) => Step::Err(format!("{:?}", e)),
                });
            }
        }
        17 => {
            let p = unwind::pool();
            check(ctx, "CfiEntriesIter", &mcx::hex(p.bytes), &|| p.section.entries(&p.bases), &|it, _| match it.next() {
                Ok(Some(gimli::CieOrFde::Cie(c))) => Step::Item(format!("{:?}", c)),
                Ok(Some(gimli::CieOrFde::Fde(f))) => match f.parse(DebugFrame::cie_from_offset) {
                    Ok(f) => Step::Item(format!("{:?}", f)),
                    Err(e) => Step::Item(format!("fde parse Err({:?})", e)),
                },
                Ok(None) => Step::End,
                Err(e) => Step::Err(format!("{:?}", e)),
            });
        }
        18 => {
            // a section whose last entry is cut short
            let p = unwind::pool();
            let mut b = p.bytes[..p.fde_offsets[1] as usize + 10].to_vec();
            b.extend([0xff, 0xff]);
            let s = DebugFrame::new(&b, LittleEndian);
            let bases = gimli::BaseAddresses::default();
            check(ctx, "CfiEntriesIter", &mcx::hex(&b), &|| s.entries(&bases), &|it, _| match it.next() {
                Ok(Some(e)) => Step::Item(format!("{:?}", e)),
                Ok(None) => Step::End,
                Err(e) => Step::Err(format!("{:?}", e)),
            });
        }
        19 => {
            let p = unwind::pool();
            for f in &p.fdes {
                check(ctx, "CallFrameInstructionIter", &format!("FDE at {:#x} of the pool", f.offset()), &|| f.instructions(&p.section, &p.bases), &|it, _| res(it.next()));
            }
            for &o in &p.cie_offsets {
                let c = p.section.cie_from_offset(&p.bases, gimli::DebugFrameOffset(o as usize)).unwrap();
                check(ctx, "CallFrameInstructionIter", &format!("CIE at {:#x} of the pool", o), &|| c.instructions(&p.section, &p.bases), &|it, _| res(it.next()));
            }
        }
        20 => {
            // instructions ending in an opcode that DWARF does not define
            let mut s = FrameSec::new();
            let cie = s.cie(1, -8, 16, Cfa::new().def_cfa(7, 8).bytes());
            let fo = s.fde(cie, 0x1000, 0x10, Cfa::new().advance(1).offset(3, 1).advance1(9).register(1, 2).raw(&[0x3d, 0x01]).bytes());
            let sec = DebugFrame::new(&s.e.buf, LittleEndian);
            let bases = gimli::BaseAddresses::default();
            let f = sec.fde_from_offset(&bases, gimli::DebugFrameOffset(fo as usize), DebugFrame::cie_from_offset).unwrap();
            check(ctx, "CallFrameInstructionIter", &mcx::hex(&s.e.buf), &|| f.instructions(&sec, &bases), &|it, _| res(it.next()));
        }
        21 => {
            let e = expr_bytes();
            let enc = Encoding { format: Format::Dwarf32, version: 4, address_size: 8 };
            check(ctx, "OperationIter", &mcx::hex(&e), &|| Expression(EndianSlice::new(&e, LittleEndian)).operations(enc), &|it, _| res(it.next()));
        }
        22 => {
            let a = aranges_bytes();
            let s = DebugAranges::new(&a, LittleEndian);
            check(ctx, "ArangeHeaderIter", &mcx::hex(&a), &|| s.headers(), &|it, _| res(it.next()));
            let mut hs = s.headers();
            while let Ok(Some(h)) = hs.next() {
                check(ctx, "ArangeEntryIter", &format!("set at {:#x} of {}", h.offset().0, mcx::hex(&a)), &|| h.entries(), &|it, _| res(it.next()));
            }
        }
        23 => {
            let b = pub_bytes();
            let s = DebugPubNames::new(&b, LittleEndian);
            check(ctx, "PubNamesEntryIter", &mcx::hex(&b), &|| s.items(), &|it, _| res(it.next()));
            let s = DebugPubTypes::new(&b, LittleEndian);
            check(ctx, "PubTypesEntryIter", &mcx::hex(&b), &|| s.items(), &|it, _| res(it.next()));
        }
        24 => {
            let b = macinfo_bytes();
            let s = DebugMacinfo::new(&b, LittleEndian);
            check(ctx, "MacroIter(macinfo)", &mcx::hex(&b), &|| s.get_macinfo(DebugMacinfoOffset(0)).unwrap(), &|it, _| res(it.next()));
            let b = macro_bytes();
            let s = DebugMacro::new(&b, LittleEndian);
            check(ctx, "MacroIter(macro)", &mcx::hex(&b), &|| s.get_macros(DebugMacroOffset(0)).unwrap(), &|it, _| res(it.next()));
        }
        25 => {
            let b = addr_bytes();
            let s = DebugAddr::from(EndianSlice::new(&b, LittleEndian));
            check(ctx, "AddrHeaderIter", &mcx::hex(&b), &|| s.headers(), &|it, _| res(it.next()));
            let mut hs = s.headers();
            while let Ok(Some(h)) = hs.next() {
                check(ctx, "AddrEntryIter", &format!("set at {:#x} of {}", h.offset().0, mcx::hex(&b)), &|| h.entries(), &|it, _| res(it.next()));
            }
        }
        26 => {
            let b = names_bytes();
            let s = DebugNames::new(&b, LittleEndian);
            check(ctx, "NameIndexHeaderIter", &mcx::hex(&b), &|| s.headers(), &|it, _| res(it.next()));
        }
        27 => {
            let b = cu_index_bytes();
            let s = DebugCuIndex::new(&b, LittleEndian);
            let ix = s.index().unwrap();
            for row in 1..=2 {
                check(ctx, "UnitIndexSectionIterator", &format!("row {} of {}", row, mcx::hex(&b)), &|| ix.sections(row).unwrap(), &|it, _| match it.next() {
                    Some(x) => Step::Item(format!("{:?}", x)),
                    None => Step::End,
                });
            }
        }
        _ => {
            // RegisterRuleIter of an evaluated row
            let p = unwind::pool();
            let mut uc: UnwindContext<usize> = UnwindContext::new();
            let row = p.section.unwind_info_for_address(&p.bases, &mut uc, 0x3001, DebugFrame::cie_from_offset).unwrap();
            check(ctx, "RegisterRuleIter", "row at 0x3001 of the pool", &|| row.registers(), &|it, _| match it.next() {
                Some(x) => Step::Item(format!("{:?}", x)),
                None => Step::End,
            });
        }
    }
}

// ---------------------------------------------------------------------------
// LineRows resumed from every sequence in every order

fn resume_case(ctx: &mut Ctx, first: usize, rest_max: u32) {
    let l = line_good();
    let dl = DebugLine::new(&l, LittleEndian);
    // straight run, cut at end_sequence rows
    let r = guard(|| {
        let mut rows = dl.program(DebugLineOffset(0), 8, None, None).unwrap().rows();
        let mut per_seq: Vec<Vec<String>> = vec![vec![]];
        while let Ok(Some((_, r))) = rows.next_row() {
            per_seq.last_mut().unwrap().push(format!("{:?}", r));
            if r.end_sequence() {
                per_seq.push(vec![]);
            }
        }
        per_seq.pop();
        let (prog, seqs) = dl.program(DebugLineOffset(0), 8, None, None).unwrap().sequences().unwrap();
        let ns = seqs.len();
        if ns != per_seq.len() || ns != 4 {
            return Err(format!("{} sequences, straight run has {}", ns, per_seq.len()));
        }
        let n = seq_count(ns as u64, 0, rest_max);
        let mut evals = 0u64;
        let mut bad = None;
        'outer: for si in 0..n {
            let mut order = vec![first];
            order.extend(seq_decode(ns as u64, 0, rest_max, si));
            // resume in this order; keep every resumed iterator alive and advance them round-robin afterwards
            let mut live = vec![];
            for (pos, &q) in order.iter().enumerate() {
                let mut it = prog.resume_from(&seqs[q]);
                let mut got = vec![];
                // the first half of the rows now, the rest after all others were created
                let half = per_seq[q].len() / 2;
                for _ in 0..half {
                    match it.next_row() {
                        Ok(Some((_, r))) => got.push(format!("{:?}", r)),
                        Ok(None) => got.push("<end>".into()),
                        Err(e) => got.push(format!("<Err {:?}>", e)),
                    }
                }
                evals += half as u64;
                live.push((pos, q, it, got));
            }
            let mut progress = true;
            while progress {
                progress = false;
                for (_, q, it, got) in live.iter_mut() {
                    if got.len() <= per_seq[*q].len() {
                        progress = true;
                        evals += 1;
                        match it.next_row() {
                            Ok(Some((_, r))) => got.push(format!("{:?}", r)),
                            Ok(None) => got.push("<end>".into()),
                            Err(e) => got.push(format!("<Err {:?}>", e)),
                        }
                    }
                }
            }
            for (pos, q, _, got) in &live {
                let mut want = per_seq[*q].clone();
                want.push("<end>".into());
                if *got != want {
                    bad = Some(format!("resume order {:?} (interleaved): resumed run #{} of sequence {} gave [{}], the straight run gave [{}]", order, pos, q, got.join(" ; "), want.join(" ; ")));
                    break 'outer;
                }
            }
        }
        Ok((n, evals, bad, seqs.iter().map(|s| format!("{:#x}..{:#x}", s.start, s.end)).collect::<Vec<_>>()))
    });
    match r {
        Err(p) => ctx.fail_panic("CompleteLineProgram::resume_from", &p, mcx::hex(&l)),
        Ok(Err(m)) => ctx.machinery(m),
        Ok(Ok((n, evals, bad, names))) => {
            ctx.eval(evals);
            ctx.nontriv(n);
            ctx.transitions += evals;
            ctx.traces += n;
            ctx.outcome("line:resume-orders");
            if let Some(b) = bad {
                ctx.fail("CompleteLineProgram::resume_from", "resumed-rows==straight-run-rows-of-the-sequence", "history-dependent-result", format!("program {}: {}", mcx::hex(&l), b));
            }
            if ctx.want_sample() {
                ctx.sample(format!("line program {} with sequences {:?}: every resume order starting with sequence {} of length <= {}, iterators interleaved", mcx::hex(&l), names, first, rest_max + 1));
            }
        }
    }
}

pub fn subs(_cli_tier: Tier) -> Vec<Sub> {
    let rl: u32 = 6; // cheap: thorough bound in both tiers
    vec![
        Sub::new(
            "iterator-clones",
            N_INSTANCES,
            "each Clone-able iterator type of the read API (unit headers of .debug_info/.debug_types, EntriesRaw, EntriesCursor x {next_entry, next_dfs, mixed with next_sibling}, EntriesTree, one-shot and resumed LineRows, LineInstructions, CfiEntriesIter, CallFrameInstructionIter of every pool CIE/FDE, OperationIter, aranges/addr headers+entries, pubnames/pubtypes, macinfo/macro, .debug_names headers, .debug_cu_index row sections, RegisterRuleIter) on a well-formed and a failing input: cloned at EVERY position of its run (including after the end) x 3 schedules (clone first, interleaved, original first then dropped); original and clone must both produce the straight run's suffix",
            instance,
        ),
        Sub::new(
            &format!("line-resume-orders-len{}", rl + 1),
            4,
            &format!("every order (with repetition) of 1..={} resume_from calls over the 4 sequences of a line program, all resumed LineRows alive at once and advanced interleaved; each equals the rows of that sequence in the one-shot run", rl + 1),
            move |ctx, i| resume_case(ctx, i as usize, rl),
        ),
    ]
}

pub fn required() -> Vec<String> {
    let mut v: Vec<String> = ["clone:run-ends-in-error", "clone:run-ends-normally", "line:resume-orders"].iter().map(|s| s.to_string()).collect();
    for n in [
        "DebugInfoUnitHeadersIter",
        "DebugTypesUnitHeadersIter",
        "EntriesRaw",
        "EntriesCursor(next_entry)",
        "EntriesCursor(next_dfs)",
        "EntriesCursor(next_entry,next_sibling,next_dfs)",
        "EntriesTree",
        "LineRows(one-shot)",
        "LineRows(resumed)",
        "LineInstructions",
        "CfiEntriesIter",
        "CallFrameInstructionIter",
        "OperationIter",
        "ArangeHeaderIter",
        "ArangeEntryIter",
        "PubNamesEntryIter",
        "PubTypesEntryIter",
        "MacroIter(macinfo)",
        "MacroIter(macro)",
        "AddrHeaderIter",
        "AddrEntryIter",
        "RegisterRuleIter",
        "NameIndexHeaderIter",
        "UnitIndexSectionIterator",
    ] {
        v.push(format!("clone:{}", n));
    }
    v
}
