//! C20: the rows of a line number sequence do not depend on the sequences that the same row
//! reader (`read::LineRows`, `write::ConvertLineProgram`) has evaluated before it.
use super::dw::*;
use gimli::write;
use gimli::{DebugLine, DebugLineOffset, EndianSlice, LittleEndian};
use mcx::{guard, Ctx, Sub, Tier};

type R<'a> = EndianSlice<'a, LittleEndian>;

const NAMES: [&str; 9] = [
    "set_address(0x1000) two rows",
    "no set_address, three rows",
    "set_address(tombstone) rows, ends tombstoned",
    "set_address(tombstone) row set_address(0x4000) row",
    "set_address(0x2000) every register changed",
    "end_sequence only",
    "no set_address, const_add_pc/fixed_advance_pc",
    "set_address(0x3000) advance, set_address(tombstone) row",
    "set_address(0) two rows",
];

fn seq(k: usize, p: LineProg) -> LineProg {
    match k {
        0 => p.set_address(0x1000, 8).special(0x14).special(0x50).end_sequence(),
        1 => p.special(0x14).advance_pc(3).copy().special(0x33).end_sequence(),
        2 => p.set_address(u64::MAX, 8).special(0x14).special(0x50).advance_pc(2).end_sequence(),
        3 => p.set_address(u64::MAX, 8).special(0x14).set_address(0x4000, 8).special(0x50).end_sequence(),
        4 => p.set_address(0x2000, 8).set_file(2).set_column(5).negate_stmt().basic_block().prologue_end().epilogue_begin().set_isa(3).discriminator(7).advance_line(9).copy().special(0x21).end_sequence(),
        5 => p.end_sequence(),
        6 => p.const_add_pc().copy().fixed_advance_pc(0x10).copy().end_sequence(),
        7 => p.set_address(0x3000, 8).special(0x2a).set_address(u64::MAX, 8).special(0x14).end_sequence(),
        _ => p.set_address(0, 8).special(0x14).special(0x50).end_sequence(),
    }
}

fn program(ks: &[usize]) -> Vec<u8> {
    let mut p = LineProg::new();
    for &k in ks {
        p = seq(k, p);
    }
    line_program_v4(&p.0.buf)
}

/// Rows of every sequence, one Vec per sequence, as `read::LineRows` gives them.
fn read_rows(bytes: &[u8]) -> Result<Vec<Vec<String>>, String> {
    let dl = DebugLine::new(bytes, LittleEndian);
    let prog = dl.program(DebugLineOffset(0), 8, None, None).map_err(|e| format!("program: {:?}", e))?;
    let mut rows = prog.rows();
    let mut out = vec![vec![]];
    let mut n = 0;
    while let Some((_, r)) = rows.next_row().map_err(|e| format!("next_row: {:?}", e))? {
        let s = format!(
            "addr={:#x} op={} file={} line={:?} col={:?} stmt={} bb={} end={} pe={} eb={} isa={} disc={}",
            r.address(),
            r.op_index(),
            r.file_index(),
            r.line(),
            r.column(),
            r.is_stmt(),
            r.basic_block(),
            r.end_sequence(),
            r.prologue_end(),
            r.epilogue_begin(),
            r.isa(),
            r.discriminator()
        );
        let end = r.end_sequence();
        out.last_mut().unwrap().push(s);
        if end {
            out.push(vec![]);
        }
        n += 1;
        if n > 200 {
            return Err("rows do not end".into());
        }
    }
    Ok(out)
}

/// The items `ConvertLineProgram::read_row` hands out, split after every EndSequence.
fn convert_rows(bytes: &[u8]) -> Result<Vec<Vec<String>>, String> {
    let mut rd: gimli::Dwarf<R<'_>> = gimli::Dwarf::default();
    rd.debug_line = DebugLine::new(bytes, LittleEndian);
    let prog = rd.debug_line.program(DebugLineOffset(0), 8, None, None).map_err(|e| format!("program: {:?}", e))?;
    let mut wd = write::Dwarf::new();
    let mut cp = wd.read_line_program(&rd, prog, None, None).map_err(|e| format!("read_line_program: {:?}", e))?;
    let mut out = vec![vec![]];
    let mut n = 0;
    while let Some(item) = cp.read_row().map_err(|e| format!("read_row: {:?}", e))? {
        let end = matches!(item, write::ConvertLineRow::EndSequence(_));
        out.last_mut().unwrap().push(format!("{:?}", item));
        if end {
            out.push(vec![]);
        }
        n += 1;
        if n > 200 {
            return Err("read_row does not end".into());
        }
    }
    Ok(out)
}

/// The sequences `ConvertLineProgram::read_sequence` hands out.
fn convert_sequences(bytes: &[u8]) -> Result<Vec<Vec<String>>, String> {
    let mut rd: gimli::Dwarf<R<'_>> = gimli::Dwarf::default();
    rd.debug_line = DebugLine::new(bytes, LittleEndian);
    let prog = rd.debug_line.program(DebugLineOffset(0), 8, None, None).map_err(|e| format!("program: {:?}", e))?;
    let mut wd = write::Dwarf::new();
    let mut cp = wd.read_line_program(&rd, prog, None, None).map_err(|e| format!("read_line_program: {:?}", e))?;
    let mut out = vec![];
    while let Some(s) = cp.read_sequence().map_err(|e| format!("read_sequence: {:?}", e))? {
        out.push(vec![format!("{:?}", s)]);
        if out.len() > 50 {
            return Err("read_sequence does not end".into());
        }
    }
    Ok(out)
}

pub fn subs(tier: Tier) -> Vec<Sub> {
    let n = NAMES.len() as u64;
    let maxlen = tier.pick(3u32, 4u32);
    let total: u64 = (1..=maxlen).map(|l| n.pow(l)).sum();
    vec![Sub::new(
        &format!("line-sequences-after-each-other-len<={}", maxlen),
        total,
        "every tuple of 1..=3 (thorough: 4) sequences over a pool of 9 (with and without DW_LNE_set_address, tombstoned to the end, tombstoned then re-addressed, valid then tombstoned, every register changed, empty, address 0) in one version 4 line program: what read::LineRows::next_row, ConvertLineProgram::read_row and ConvertLineProgram::read_sequence give for the whole program equals what each gives for the program without its last sequence followed by what it gives for the last sequence in a program of its own (an error of either part is the error of the whole)",
        move |ctx: &mut Ctx, i| {
            let mut ks = vec![];
            let mut r = i;
            let mut len = 1u32;
            while r >= n.pow(len) {
                r -= n.pow(len);
                len += 1;
            }
            for _ in 0..len {
                ks.push((r % n) as usize);
                r /= n;
            }
            let last = *ks.last().unwrap();
            let whole = program(&ks);
            let alone = program(&[last]);
            let case = || format!("sequences [{}] program {}", ks.iter().map(|&k| NAMES[k]).collect::<Vec<_>>().join(" | "), mcx::hex(&whole));
            type F = fn(&[u8]) -> Result<Vec<Vec<String>>, String>;
            let readers: [(&str, F); 3] = [("LineRows::next_row", read_rows), ("ConvertLineProgram::read_row", convert_rows), ("ConvertLineProgram::read_sequence", convert_sequences)];
            let prefix = program(&ks[..ks.len() - 1]);
            for (name, f) in readers {
                ctx.eval(3);
                let mut res = vec![];
                for bytes in [&whole, &prefix, &alone] {
                    match guard(|| f(bytes)) {
                        Ok(x) => res.push(x.map(|v| v.concat())),
                        Err(p) => return ctx.fail_panic(name, &p, case()),
                    }
                }
                let (l, p, w) = (res.pop().unwrap(), res.pop().unwrap(), res.pop().unwrap());
                // the reader stops at its first error: the whole program fails where its parts fail
                let want = match (p, l) {
                    // read_sequence closes a sequence that was left open by a tombstone at the next
                    // DW_LNE_set_address: whether the earlier part is an error depends on what follows it
                    (Err(_), _) if name.ends_with("read_sequence") => {
                        ctx.outcome("line-sequences:read_sequence:earlier-part-left-open");
                        continue;
                    }
                    (Err(e), _) => Err(e),
                    (Ok(_), Err(e)) => Err(e),
                    (Ok(mut p), Ok(l)) => {
                        p.extend(l);
                        Ok(p)
                    }
                };
                if w != want {
                    ctx.fail(name, "sequence-after-others-equals-alone", if w.is_err() != want.is_err() { "error-differs" } else { "rows-differ" }, format!("{}\n  whole program                      : {:?}\n  earlier sequences ++ the last alone: {:?}", case(), w, want));
                    return;
                }
                ctx.outcome(&format!("line-sequences:{}:{}", name, if want.is_ok() { "equal" } else { "same-error" }));
                if ks.len() >= 2 && matches!(ks[ks.len() - 2], 2 | 7) && matches!(last, 1 | 6) {
                    ctx.outcome("line-sequences:no-address-after-tombstoned-end");
                }
            }
            ctx.nontriv(1);
        },
    )]
}

pub fn required() -> Vec<String> {
    ["line-sequences:LineRows::next_row:equal", "line-sequences:ConvertLineProgram::read_row:equal", "line-sequences:ConvertLineProgram::read_sequence:equal", "line-sequences:no-address-after-tombstoned-end"].iter().map(|s| s.to_string()).collect()
}
