//! Shared gimli-facing helpers for the gv-* check binaries.
pub use mcx;

pub fn err_name(e: &gimli::Error) -> String {
    let s = format!("{:?}", e);
    s.split(|c| c == '(' || c == ' ' || c == '{').next().unwrap_or("").to_string()
}
