//! Byte encoder for DWARF structures, independent of gimli. Records a field
//! map (offset, width, kind) for structure-aware mutation.

use crate::leb;
use std::cell::Cell;

thread_local! {
    static FIELD_COUNTER: Cell<u64> = const { Cell::new(0) };
    static MUT1: Cell<Option<(u64, u64)>> = const { Cell::new(None) };
    static MUT2: Cell<Option<(u64, u64)>> = const { Cell::new(None) };
}

/// Run a (deterministic) generator with up to two numeric fields overridden:
/// the k-th numeric field emitted through any `Enc` on this thread gets the
/// given value instead of the generator's. Enclosing lengths are computed from
/// the emitted bytes, so they stay consistent. Returns the generator's result
/// and the number of numeric fields it emitted.
pub fn with_mutation<T>(m1: Option<(u64, u64)>, m2: Option<(u64, u64)>, f: impl FnOnce() -> T) -> (T, u64) {
    FIELD_COUNTER.with(|c| c.set(0));
    MUT1.with(|m| m.set(m1));
    MUT2.with(|m| m.set(m2));
    let r = f();
    MUT1.with(|m| m.set(None));
    MUT2.with(|m| m.set(None));
    let n = FIELD_COUNTER.with(|c| c.get());
    (r, n)
}

#[inline]
fn hook(v: u64) -> u64 {
    let k = FIELD_COUNTER.with(|c| {
        let k = c.get();
        c.set(k + 1);
        k
    });
    if let Some((i, nv)) = MUT1.with(|m| m.get()) {
        if i == k {
            return nv;
        }
    }
    if let Some((i, nv)) = MUT2.with(|m| m.get()) {
        if i == k {
            return nv;
        }
    }
    v
}

#[derive(Clone, Copy, Debug, PartialEq, Eq)]
pub enum FieldKind {
    U8,
    U16,
    U32,
    U64,
    Uleb,
    Sleb,
    Addr,
    Offset,
    Length,
    Bytes,
}

#[derive(Clone, Debug)]
pub struct Field {
    pub off: usize,
    pub width: usize,
    pub kind: FieldKind,
    pub name: &'static str,
}

#[derive(Clone, Debug)]
pub struct Enc {
    pub buf: Vec<u8>,
    pub big: bool,
    pub fields: Vec<Field>,
    pub record: bool,
}

impl Enc {
    pub fn new(big: bool) -> Enc {
        Enc { buf: vec![], big, fields: vec![], record: false }
    }
    pub fn recording(big: bool) -> Enc {
        Enc { buf: vec![], big, fields: vec![], record: true }
    }
    pub fn len(&self) -> usize {
        self.buf.len()
    }
    fn f(&mut self, width: usize, kind: FieldKind, name: &'static str) {
        if self.record {
            self.fields.push(Field { off: self.buf.len(), width, kind, name });
        }
    }
    pub fn u8(&mut self, v: u8) -> &mut Self {
        let v = hook(v as u64) as u8;
        self.f(1, FieldKind::U8, "");
        self.buf.push(v);
        self
    }
    pub fn uint(&mut self, v: u64, n: usize) -> &mut Self {
        let v = hook(v);
        let k = match n {
            1 => FieldKind::U8,
            2 => FieldKind::U16,
            4 => FieldKind::U32,
            8 => FieldKind::U64,
            _ => FieldKind::Bytes,
        };
        self.f(n, k, "");
        self.raw_uint(v, n);
        self
    }
    pub fn raw_uint(&mut self, v: u64, n: usize) {
        if self.big {
            for i in (0..n).rev() {
                self.buf.push(if i < 8 { (v >> (8 * i)) as u8 } else { 0 });
            }
        } else {
            for i in 0..n {
                self.buf.push(if i < 8 { (v >> (8 * i)) as u8 } else { 0 });
            }
        }
    }
    pub fn u16(&mut self, v: u16) -> &mut Self {
        self.uint(v as u64, 2)
    }
    pub fn u32(&mut self, v: u32) -> &mut Self {
        self.uint(v as u64, 4)
    }
    pub fn u64(&mut self, v: u64) -> &mut Self {
        self.uint(v, 8)
    }
    pub fn uleb(&mut self, v: u64) -> &mut Self {
        let v = hook(v);
        let n = leb::uleb_len(v);
        self.f(n, FieldKind::Uleb, "");
        leb::enc_uleb(v, &mut self.buf);
        self
    }
    pub fn sleb(&mut self, v: i64) -> &mut Self {
        let v = hook(v as u64) as i64;
        let n = leb::sleb_len(v);
        self.f(n, FieldKind::Sleb, "");
        leb::enc_sleb(v, &mut self.buf);
        self
    }
    pub fn addr(&mut self, v: u64, size: u8) -> &mut Self {
        let v = hook(v);
        self.f(size as usize, FieldKind::Addr, "");
        self.raw_uint(v, size as usize);
        self
    }
    /// Section offset: 4 bytes in the 32-bit format, 8 in the 64-bit one.
    pub fn offset(&mut self, v: u64, fmt64: bool) -> &mut Self {
        let v = hook(v);
        let n = if fmt64 { 8 } else { 4 };
        self.f(n, FieldKind::Offset, "");
        self.raw_uint(v, n);
        self
    }
    pub fn bytes(&mut self, b: &[u8]) -> &mut Self {
        self.f(b.len(), FieldKind::Bytes, "");
        self.buf.extend_from_slice(b);
        self
    }
    pub fn cstr(&mut self, b: &[u8]) -> &mut Self {
        self.f(b.len() + 1, FieldKind::Bytes, "");
        self.buf.extend_from_slice(b);
        self.buf.push(0);
        self
    }
    /// Emit an initial-length field for `body`, then the body.
    pub fn with_length(&mut self, fmt64: bool, body: &Enc) -> &mut Self {
        let base;
        let l = hook(body.buf.len() as u64);
        if fmt64 {
            self.f(12, FieldKind::Length, "");
            self.raw_uint(0xffff_ffff, 4);
            self.raw_uint(l, 8);
        } else {
            self.f(4, FieldKind::Length, "");
            self.raw_uint(l, 4);
        }
        base = self.buf.len();
        self.buf.extend_from_slice(&body.buf);
        if self.record {
            for fl in &body.fields {
                let mut fl = fl.clone();
                fl.off += base;
                self.fields.push(fl);
            }
        }
        self
    }
    pub fn append(&mut self, other: &Enc) -> &mut Self {
        let base = self.buf.len();
        self.buf.extend_from_slice(&other.buf);
        if self.record {
            for fl in &other.fields {
                let mut fl = fl.clone();
                fl.off += base;
                self.fields.push(fl);
            }
        }
        self
    }
    /// Overwrite `n` bytes at `off` with `v` in this encoder's byte order.
    pub fn patch_uint(&mut self, off: usize, v: u64, n: usize) {
        for i in 0..n {
            let b = if i < 8 { (v >> (8 * i)) as u8 } else { 0 };
            let pos = if self.big { off + n - 1 - i } else { off + i };
            self.buf[pos] = b;
        }
    }
}
