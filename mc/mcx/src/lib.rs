//! mcx: gimli-independent machinery: exploration engine, index spaces, BFS
//! explorer, byte encoders and reference models.
pub mod engine;
pub mod space;
pub mod explore;
pub mod enc;
pub mod leb;

pub use engine::{deep, guard, CheckDef, Ctx, Panic, Sub, Tier};

pub fn hex(b: &[u8]) -> String {
    let mut s = String::with_capacity(b.len() * 2);
    for x in b {
        s.push_str(&format!("{:02x}", x));
    }
    s
}
