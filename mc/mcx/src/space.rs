//! Indexable finite spaces: every case is addressed by a u64 index, so runs
//! are deterministic, shardable and replayable by (sub, index).

/// Decode `idx` as mixed-radix digits (least significant first).
pub fn digits(mut idx: u64, radices: &[u64]) -> Vec<u64> {
    let mut out = Vec::with_capacity(radices.len());
    for &r in radices {
        out.push(idx % r);
        idx /= r;
    }
    out
}

pub fn product(radices: &[u64]) -> u64 {
    radices.iter().fold(1u64, |a, &r| a.checked_mul(r).expect("space too large"))
}

/// Mixed-radix cursor.
pub struct Mix(pub u64);
impl Mix {
    #[inline]
    pub fn take(&mut self, r: u64) -> u64 {
        let d = self.0 % r;
        self.0 /= r;
        d
    }
    #[inline]
    pub fn pick<'a, T>(&mut self, xs: &'a [T]) -> &'a T {
        &xs[self.take(xs.len() as u64) as usize]
    }
    pub fn flag(&mut self) -> bool {
        self.take(2) == 1
    }
}

/// Number of sequences of length `min..=max` over an alphabet of `n` symbols.
pub fn seq_count(n: u64, min: u32, max: u32) -> u64 {
    (min..=max).map(|l| n.checked_pow(l).expect("space too large")).fold(0u64, |a, b| a.checked_add(b).expect("space too large"))
}

/// The `idx`-th sequence (shortest first, then lexicographic with the first
/// element most significant).
pub fn seq_decode(n: u64, min: u32, max: u32, mut idx: u64) -> Vec<usize> {
    for l in min..=max {
        let c = n.pow(l);
        if idx < c {
            let mut v = vec![0usize; l as usize];
            for k in (0..l as usize).rev() {
                v[k] = (idx % n) as usize;
                idx /= n;
            }
            return v;
        }
        idx -= c;
    }
    panic!("seq_decode: index out of range");
}

/// All ordered rooted trees with `n` nodes, as parent vectors in preorder
/// (parent[0] = usize::MAX). Deterministic order.
pub fn trees(n: usize) -> Vec<Vec<usize>> {
    // A preorder parent vector is valid iff parent[i] is on the rightmost path
    // of the tree built from nodes 0..i.
    fn rec(n: usize, cur: &mut Vec<usize>, path: &mut Vec<usize>, out: &mut Vec<Vec<usize>>) {
        if cur.len() == n {
            out.push(cur.clone());
            return;
        }
        let i = cur.len();
        // attach to any node on the rightmost path
        let saved = path.clone();
        for k in (0..saved.len()).rev() {
            let p = saved[k];
            cur.push(p);
            path.truncate(k + 1);
            path.push(i);
            rec(n, cur, path, out);
            cur.pop();
            *path = saved.clone();
        }
    }
    let mut out = vec![];
    if n == 0 {
        return out;
    }
    let mut cur = vec![usize::MAX];
    let mut path = vec![0usize];
    rec(n, &mut cur, &mut path, &mut out);
    out
}

/// All forests (sequences of ordered trees) with exactly `n` nodes, as parent
/// vectors in preorder where roots have parent usize::MAX.
pub fn forests(n: usize) -> Vec<Vec<usize>> {
    // forest with n nodes == tree with n+1 nodes minus the root
    trees(n + 1)
        .into_iter()
        .map(|t| t[1..].iter().map(|&p| if p == 0 { usize::MAX } else { p - 1 }).collect())
        .collect()
}

#[cfg(test)]
mod tests {
    use super::*;
    #[test]
    fn counts() {
        assert_eq!(trees(1).len(), 1);
        assert_eq!(trees(4).len(), 5);
        assert_eq!(trees(5).len(), 14);
        assert_eq!(trees(7).len(), 132);
        assert_eq!(seq_count(3, 0, 2), 13);
        assert_eq!(seq_decode(3, 0, 2, 0), Vec::<usize>::new());
        assert_eq!(seq_decode(3, 0, 2, 4), vec![0, 0]);
        assert_eq!(seq_decode(3, 0, 2, 12), vec![2, 2]);
    }
}
