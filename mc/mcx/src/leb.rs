//! Reference LEB128 arithmetic (independent of gimli), in 128-bit / big
//! integers so that "does not fit" is detected rather than wrapped.

#[derive(Debug, Clone, Copy, PartialEq, Eq)]
pub enum Dec<T> {
    /// value, bytes consumed
    Ok(T, usize),
    /// the input ended inside the number
    Incomplete,
    /// complete encoding of `n` bytes whose value exceeds what fits in i128/u128
    /// bookkeeping (more than 18 bytes); treated as not fitting any target.
    Huge(usize),
}

/// Mathematical value of an unsigned LEB128 number at the start of `b`.
pub fn uleb(b: &[u8]) -> Dec<u128> {
    let mut v: u128 = 0;
    let mut huge = false;
    for (i, &x) in b.iter().enumerate() {
        let low = (x & 0x7f) as u128;
        let sh = 7 * i as u32;
        if sh < 126 {
            if sh > 121 && (low >> (128 - sh).min(7)) != 0 {
                huge = true;
            }
            v |= low << sh;
        } else if low != 0 {
            huge = true;
        }
        if x & 0x80 == 0 {
            return if huge { Dec::Huge(i + 1) } else { Dec::Ok(v, i + 1) };
        }
    }
    Dec::Incomplete
}

/// Mathematical value of a signed LEB128 number at the start of `b`.
pub fn sleb(b: &[u8]) -> Dec<i128> {
    let mut v: i128 = 0;
    for (i, &x) in b.iter().enumerate() {
        let low = (x & 0x7f) as i128;
        let sh = 7 * i as u32;
        if sh >= 119 {
            // beyond bookkeeping; find the end
            let mut j = i;
            loop {
                if j >= b.len() {
                    return Dec::Incomplete;
                }
                if b[j] & 0x80 == 0 {
                    return Dec::Huge(j + 1);
                }
                j += 1;
            }
        }
        v |= low << sh;
        if x & 0x80 == 0 {
            if x & 0x40 != 0 {
                v |= -1i128 << (sh + 7);
            }
            return Dec::Ok(v, i + 1);
        }
    }
    Dec::Incomplete
}

pub fn enc_uleb(mut v: u64, out: &mut Vec<u8>) {
    loop {
        let b = (v & 0x7f) as u8;
        v >>= 7;
        if v == 0 {
            out.push(b);
            return;
        }
        out.push(b | 0x80);
    }
}

pub fn enc_uleb128(mut v: u128, out: &mut Vec<u8>) {
    loop {
        let b = (v & 0x7f) as u8;
        v >>= 7;
        if v == 0 {
            out.push(b);
            return;
        }
        out.push(b | 0x80);
    }
}

pub fn enc_sleb(mut v: i64, out: &mut Vec<u8>) {
    loop {
        let b = (v & 0x7f) as u8;
        v >>= 7;
        let done = (v == 0 && b & 0x40 == 0) || (v == -1 && b & 0x40 != 0);
        if done {
            out.push(b);
            return;
        }
        out.push(b | 0x80);
    }
}

/// ULEB padded with continuation bytes to exactly `n` bytes (over-long form).
pub fn enc_uleb_padded(v: u64, n: usize, out: &mut Vec<u8>) {
    let mut tmp = vec![];
    enc_uleb(v, &mut tmp);
    assert!(tmp.len() <= n);
    let l = tmp.len();
    for (i, b) in tmp.into_iter().enumerate() {
        out.push(if i + 1 == l && l < n { b | 0x80 } else { b });
    }
    for i in l..n {
        out.push(if i + 1 == n { 0 } else { 0x80 });
    }
}

pub fn uleb_len(v: u64) -> usize {
    let mut t = vec![];
    enc_uleb(v, &mut t);
    t.len()
}
pub fn sleb_len(v: i64) -> usize {
    let mut t = vec![];
    enc_sleb(v, &mut t);
    t.len()
}

#[cfg(test)]
mod tests {
    use super::*;
    #[test]
    fn roundtrip() {
        for v in [0u64, 1, 127, 128, 300, u64::MAX, 1 << 63] {
            let mut b = vec![];
            enc_uleb(v, &mut b);
            assert_eq!(uleb(&b), Dec::Ok(v as u128, b.len()));
        }
        for v in [0i64, -1, 63, 64, -64, -65, i64::MIN, i64::MAX] {
            let mut b = vec![];
            enc_sleb(v, &mut b);
            assert_eq!(sleb(&b), Dec::Ok(v as i128, b.len()));
        }
        let mut b = vec![];
        enc_uleb_padded(5, 3, &mut b);
        assert_eq!(b, vec![0x85, 0x80, 0x00]);
        assert_eq!(uleb(&b), Dec::Ok(5, 3));
        assert_eq!(uleb(&[0x80]), Dec::Incomplete);
    }
}
