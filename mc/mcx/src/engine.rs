//! Bounded-exhaustive exploration engine.
//!
//! A check is a list of `Sub`s. Each `Sub` is a finite, indexable space
//! (`len` cases); `run(ctx, i)` executes case `i` on the real implementation,
//! compares with the oracle and reports through `ctx`. The parent process
//! shards every sub over W single-threaded worker processes (`i % W == w`),
//! so a crash (SIGSEGV from a stack overflow, SIGABRT) or a hang is attributed
//! to the exact in-flight case via a per-worker slot file. Every candidate
//! violation is executed twice and must reproduce identically.
//!
//! Exit codes: 0 = property held on everything explored (known findings are
//! printed as KNOWN-FINDING lines), 1 = unlisted violation, 2 = machinery.

use serde_json::{json, Value};
use std::cell::RefCell;
use std::collections::BTreeMap;
use std::io::{Read, Write};
use std::os::unix::fs::FileExt;
use std::os::unix::process::ExitStatusExt;
use std::path::{Path, PathBuf};
use std::process::{Command, Stdio};
use std::time::{Duration, Instant};

#[derive(Clone, Copy, PartialEq, Eq, Debug)]
pub enum Tier {
    Quick,
    Thorough,
}

impl Tier {
    pub fn pick<T>(self, q: T, t: T) -> T {
        match self {
            Tier::Quick => q,
            Tier::Thorough => t,
        }
    }
    pub fn name(self) -> &'static str {
        self.pick("quick", "thorough")
    }
}

static DEEP: std::sync::atomic::AtomicBool = std::sync::atomic::AtomicBool::new(false);

/// True in the thorough run of a property whose quick tier already runs the
/// `Tier::Thorough` bounds ("promoted" property): harnesses use it to select bounds
/// deeper than `Tier::Thorough`.
pub fn deep() -> bool {
    DEEP.load(std::sync::atomic::Ordering::Relaxed)
}

/// A violation (or crash) found by a case.
#[derive(Clone, Debug)]
pub struct Violation {
    /// API entry point / driver the case exercised.
    pub entry: String,
    /// Where it failed: `src/read/op.rs:<trimmed source line>` for panics, or
    /// the name of the oracle clause for wrong results.
    pub site: String,
    /// Class: panic message class, `abort:<signal>`, `hang`, or a
    /// wrong-result class.
    pub kind: String,
    /// Human-readable detail: rendered case, observed, expected.
    pub detail: String,
    pub sub: String,
    pub index: u64,
    pub extra: Option<String>,
    pub flavour: String,
}

impl Violation {
    pub fn key(&self) -> String {
        format!("entry={} site={} kind={}", self.entry, self.site, self.kind)
    }
}

pub struct Ctx {
    pub tier: Tier,
    pub prop: String,
    pub flavour: String,
    pub verbose: bool,
    /// Replay payload (e.g. an action path for explorer subs).
    pub extra: Option<String>,
    pub sub: String,
    pub index: u64,
    pub evals: u64,
    pub nontrivial: u64,
    pub states: u64,
    pub transitions: u64,
    pub traces: u64,
    pub outcomes: BTreeMap<String, u64>,
    pub samples: Vec<String>,
    sample_cap: usize,
    pub violations: Vec<Violation>,
    pub machinery: Vec<String>,
    slot: Option<std::fs::File>,
    sub_idx: u64,
    pos: u64,
    beat: u64,
}

impl Ctx {
    fn new(prop: &str, tier: Tier, flavour: &str) -> Ctx {
        Ctx {
            tier,
            prop: prop.to_string(),
            flavour: flavour.to_string(),
            verbose: false,
            extra: None,
            sub: String::new(),
            index: 0,
            evals: 0,
            nontrivial: 0,
            states: 0,
            transitions: 0,
            traces: 0,
            outcomes: BTreeMap::new(),
            samples: Vec::new(),
            sample_cap: 2,
            violations: Vec::new(),
            machinery: Vec::new(),
            slot: None,
            sub_idx: 0,
            pos: 0,
            beat: 0,
        }
    }
    /// Count `n` executions of the implementation.
    #[inline]
    pub fn eval(&mut self, n: u64) {
        self.evals += n;
    }
    /// Count `n` distinct non-trivial cases (by the check's stated rule).
    #[inline]
    pub fn nontriv(&mut self, n: u64) {
        self.nontrivial += n;
    }
    #[inline]
    pub fn outcome(&mut self, class: &str) {
        if let Some(c) = self.outcomes.get_mut(class) {
            *c += 1;
        } else {
            self.outcomes.insert(class.to_string(), 1);
        }
    }
    pub fn outcome_n(&mut self, class: &str, n: u64) {
        *self.outcomes.entry(class.to_string()).or_insert(0) += n;
    }
    /// Offer a rendered case as a sample (first few per sub are kept).
    pub fn want_sample(&self) -> bool {
        self.verbose || self.samples.len() < self.sample_cap
    }
    pub fn sample(&mut self, s: String) {
        if self.verbose {
            println!("CASE {}", s);
        }
        if self.samples.len() < self.sample_cap {
            self.samples.push(format!("{}[{}]: {}", self.sub, self.index, s));
        }
    }
    pub fn log(&self, s: &str) {
        if self.verbose {
            println!("{}", s);
        }
    }
    pub fn fail(&mut self, entry: &str, site: &str, kind: &str, detail: String) {
        if self.verbose {
            println!("FAIL entry={} site={} kind={}\n  {}", entry, site, kind, detail);
        }
        // Keep the first witness per key per worker.
        let key = format!("entry={} site={} kind={}", entry, site, kind);
        if self.violations.iter().any(|v| v.key() == key) {
            self.outcome_n(&format!("violation:{}", key), 1);
            return;
        }
        self.outcome_n(&format!("violation:{}", key), 1);
        let mut detail = detail;
        if detail.len() > 4000 {
            detail.truncate(4000);
            detail.push_str("...");
        }
        self.violations.push(Violation {
            entry: entry.to_string(),
            site: site.to_string(),
            kind: kind.to_string(),
            detail,
            sub: self.sub.clone(),
            index: self.index,
            extra: self.extra.clone(),
            flavour: self.flavour.clone(),
        });
    }
    /// Report a violation found by an explorer, with the path to replay.
    pub fn fail_path(&mut self, entry: &str, site: &str, kind: &str, path: String, detail: String) {
        let old = self.extra.replace(path);
        self.fail(entry, site, kind, detail);
        self.extra = old;
    }
    /// Report a panic caught by `guard`.
    pub fn fail_panic(&mut self, entry: &str, p: &Panic, case: String) {
        let site = p.site();
        let kind = p.kind();
        self.fail(
            entry,
            &site,
            &kind,
            format!("panic '{}' at {}:{} on {}", p.msg, p.file, p.line, case),
        );
    }
    pub fn machinery(&mut self, msg: String) {
        if self.verbose {
            println!("MACHINERY {}", msg);
        }
        if self.machinery.len() < 20 {
            self.machinery.push(format!("{}[{}]: {}", self.sub, self.index, msg));
        }
    }
    /// Explorer subs call this periodically so the hang monitor sees progress.
    pub fn heartbeat(&mut self) {
        self.beat += 1;
        self.write_slot();
    }
    fn write_slot(&mut self) {
        if let Some(f) = &self.slot {
            let mut b = [0u8; 24];
            b[..8].copy_from_slice(&self.sub_idx.to_le_bytes());
            b[8..16].copy_from_slice(&self.pos.to_le_bytes());
            b[16..].copy_from_slice(&self.beat.to_le_bytes());
            let _ = f.write_at(&b, 0);
        }
    }
}

pub struct Sub {
    pub name: String,
    pub len: u64,
    /// Statement of the bound this sub covers, for the evidence.
    pub bounds: String,
    /// Build flavours under which the sub runs (subset of those the check
    /// script supplies); empty = the first supplied flavour only.
    pub flavours: Vec<&'static str>,
    /// Seconds without slot progress before the worker is declared hung.
    pub timeout_s: u64,
    pub run: Box<dyn Fn(&mut Ctx, u64)>,
}

impl Sub {
    pub fn new(name: &str, len: u64, bounds: &str, run: impl Fn(&mut Ctx, u64) + 'static) -> Sub {
        Sub {
            name: name.to_string(),
            len,
            bounds: bounds.to_string(),
            flavours: vec![],
            timeout_s: 120,
            run: Box::new(run),
        }
    }
    pub fn flavours(mut self, f: &[&'static str]) -> Sub {
        self.flavours = f.to_vec();
        self
    }
    pub fn timeout(mut self, s: u64) -> Sub {
        self.timeout_s = s;
        self
    }
}

pub struct CheckDef {
    pub level: &'static str,
    pub rule: String,
    pub assumptions: Vec<String>,
    pub subs: Vec<Sub>,
    /// Outcome classes that must have been observed at least once (vacuity
    /// guards); a missing one is a machinery failure (exit 2).
    pub required_outcomes: Vec<String>,
}

/// A scratch context (counters discarded), for measuring a case outside a run.
pub fn placeholder_ctx() -> Ctx {
    let mut c = Ctx::new("", Tier::Quick, "");
    c.sample_cap = 0;
    c
}

// ---------------------------------------------------------------------------
// Panic capture

#[derive(Clone, Debug)]
pub struct Panic {
    pub msg: String,
    pub file: String,
    pub line: u32,
}

impl Panic {
    /// `file:<trimmed source text of the panicking line>`; robust against
    /// line shifts, specific to the expression that failed.
    pub fn site(&self) -> String {
        // path relative to the crate root, wherever the crate was built from
        let rel = match self.file.rfind("/src/") {
            Some(p) => self.file[p + 1..].to_string(),
            None => self.file.trim_start_matches("/repo/").to_string(),
        };
        let text = source_line(&self.file, self.line).unwrap_or_else(|| format!("line{}", self.line));
        let text: String = text.split_whitespace().collect::<Vec<_>>().join("_");
        format!("{}:{}", rel, text)
    }
    pub fn kind(&self) -> String {
        let m = &self.msg;
        let k = if m.starts_with("attempt to") {
            m.as_str()
        } else if m.starts_with("assertion") {
            "assertion failed"
        } else if m.contains("out of range") || m.contains("out of bounds") {
            "index out of range"
        } else if m.contains("unwrap") {
            "unwrap on None/Err"
        } else if m.contains("capacity overflow") {
            "capacity overflow"
        } else {
            let mut e = 40.min(m.len());
            while !m.is_char_boundary(e) {
                e -= 1;
            }
            &m[..e]
        };
        format!("panic:{}", k.split_whitespace().collect::<Vec<_>>().join("_"))
    }
}

fn source_line(file: &str, line: u32) -> Option<String> {
    let p = if file.starts_with('/') { PathBuf::from(file) } else { Path::new("/repo").join(file) };
    let s = std::fs::read_to_string(p).ok()?;
    s.lines().nth(line.checked_sub(1)? as usize).map(|l| l.trim().to_string())
}

thread_local! {
    static LAST_PANIC: RefCell<Option<Panic>> = const { RefCell::new(None) };
}

pub fn install_panic_hook() {
    std::panic::set_hook(Box::new(|info| {
        let msg = if let Some(s) = info.payload().downcast_ref::<&str>() {
            s.to_string()
        } else if let Some(s) = info.payload().downcast_ref::<String>() {
            s.clone()
        } else {
            "<non-string panic>".to_string()
        };
        let (file, line) = info.location().map(|l| (l.file().to_string(), l.line())).unwrap_or(("?".into(), 0));
        if std::env::var_os("MCX_SHOW_PANICS").is_some() {
            eprintln!("panic: {} at {}:{}", msg, file, line);
        }
        LAST_PANIC.with(|p| *p.borrow_mut() = Some(Panic { msg, file, line }));
    }));
}

/// Run `f` on the implementation; a panic is caught and returned with its
/// location.
pub fn guard<T>(f: impl FnOnce() -> T) -> Result<T, Panic> {
    match std::panic::catch_unwind(std::panic::AssertUnwindSafe(f)) {
        Ok(v) => Ok(v),
        Err(_) => Err(LAST_PANIC
            .with(|p| p.borrow_mut().take())
            .unwrap_or(Panic { msg: "?".into(), file: "?".into(), line: 0 })),
    }
}

// ---------------------------------------------------------------------------
// Known findings

#[derive(Clone, Debug)]
pub struct Known {
    pub prop: String,
    pub entry: String,
    pub site: String,
    pub kind: String,
    pub line: String,
}

pub fn load_known(path: &Path) -> Vec<Known> {
    let mut out = vec![];
    let Ok(s) = std::fs::read_to_string(path) else { return out };
    for l in s.lines() {
        let l = l.trim();
        if !l.starts_with("finding:") {
            continue;
        }
        let mut k = Known { prop: String::new(), entry: String::new(), site: String::new(), kind: String::new(), line: l.to_string() };
        for tok in l["finding:".len()..].split_whitespace() {
            if let Some(v) = tok.strip_prefix("property=") {
                k.prop = v.to_string();
            } else if let Some(v) = tok.strip_prefix("entry=") {
                k.entry = v.to_string();
            } else if let Some(v) = tok.strip_prefix("site=") {
                k.site = v.to_string();
            } else if let Some(v) = tok.strip_prefix("kind=") {
                k.kind = v.to_string();
            }
        }
        out.push(k);
    }
    out
}

// ---------------------------------------------------------------------------
// Driver

fn verif_root() -> PathBuf {
    std::env::var("VERIF_ROOT").map(PathBuf::from).unwrap_or_else(|_| PathBuf::from("/verif"))
}

fn fnv(s: &str) -> u64 {
    let mut h: u64 = 0xcbf29ce484222325;
    for b in s.bytes() {
        h ^= b as u64;
        h = h.wrapping_mul(0x100000001b3);
    }
    h
}

fn viol_json(v: &Violation) -> Value {
    json!({"t":"viol","entry":v.entry,"site":v.site,"kind":v.kind,"detail":v.detail,
           "sub":v.sub,"index":v.index,"extra":v.extra,"flavour":v.flavour})
}

fn viol_from(v: &Value) -> Violation {
    let s = |k: &str| v[k].as_str().unwrap_or("").to_string();
    Violation {
        entry: s("entry"),
        site: s("site"),
        kind: s("kind"),
        detail: s("detail"),
        sub: s("sub"),
        index: v["index"].as_u64().unwrap_or(0),
        extra: v["extra"].as_str().map(|x| x.to_string()),
        flavour: s("flavour"),
    }
}

fn gcd(a: u64, b: u64) -> u64 {
    if b == 0 {
        a
    } else {
        gcd(b, a % b)
    }
}

/// Multiplier coprime with `len`: iteration position k maps to case (k * m) % len,
/// a bijection that decorrelates worker number from the dimensions of the index.
fn stride(len: u64) -> u64 {
    if len < 3 {
        return 1;
    }
    for m in [1_000_003u64, 1_000_033, 1_000_037, 1_000_039, 1_000_081, 1_000_099, 7919, 104_729] {
        if gcd(m % len, len) == 1 && m % len != 0 {
            return m;
        }
    }
    1
}

fn case_of(k: u64, len: u64, m: u64) -> u64 {
    ((k as u128 * m as u128) % len as u128) as u64
}

fn run_case_twice(ctx: &mut Ctx, sub: &Sub, i: u64) {
    let before = ctx.violations.len();
    let seen_before: Vec<String> = ctx.outcomes.keys().filter(|k| k.starts_with("violation:")).cloned().collect();
    ctx.index = i;
    ctx.write_slot();
    (sub.run)(ctx, i);
    if ctx.violations.len() > before {
        // Determinism: re-execute the case on fresh state; the same
        // violation keys must come back.
        let first: Vec<String> = ctx.violations[before..].iter().map(|v| v.key()).collect();
        let mut c2 = Ctx::new(&ctx.prop, ctx.tier, &ctx.flavour);
        c2.sub = ctx.sub.clone();
        c2.index = i;
        c2.sample_cap = 0;
        (sub.run)(&mut c2, i);
        let second: Vec<String> = c2.violations.iter().map(|v| v.key()).collect();
        for k in &first {
            if !second.contains(k) {
                ctx.machinery(format!("non-deterministic violation {} (not reproduced on re-execution)", k));
            }
        }
    }
    let _ = seen_before;
}

fn counters_json(ctx: &Ctx, sub_evals: &BTreeMap<String, (u64, u64, u64)>) -> Value {
    json!({"t":"done","evals":ctx.evals,"nontrivial":ctx.nontrivial,"states":ctx.states,
           "transitions":ctx.transitions,"traces":ctx.traces,"outcomes":ctx.outcomes,
           "samples":ctx.samples,"machinery":ctx.machinery,
           "sub_evals": sub_evals.iter().map(|(k,v)| (k.clone(), json!([v.0, v.1, v.2]))).collect::<serde_json::Map<_,_>>()})
}

fn worker_main(def: &CheckDef, prop: &str, tier: Tier, flavour: &str, is_default: bool, w: u64, nw: u64, resume: Option<(u64, u64)>, slot: &str) -> i32 {
    let mut ctx = Ctx::new(prop, tier, flavour);
    ctx.slot = std::fs::OpenOptions::new().write(true).create(true).truncate(false).open(slot).ok();
    let out = std::io::stdout();
    let mut sub_evals: BTreeMap<String, (u64, u64, u64)> = BTreeMap::new();
    for (si, sub) in def.subs.iter().enumerate() {
        let si = si as u64;
        let runs_here = if sub.flavours.is_empty() { is_default } else { sub.flavours.contains(&flavour) };
        if !runs_here {
            continue;
        }
        let mut start = w;
        if let Some((rs, ri)) = resume {
            if si < rs {
                continue;
            }
            if si == rs {
                start = ri;
            }
        }
        ctx.sub = sub.name.clone();
        ctx.sub_idx = si;
        let e0 = ctx.evals;
        let t_sub = Instant::now();
        let before_s = ctx.samples.len();
        ctx.sample_cap = before_s + if w == 0 { 2 } else { 0 };
        let mut i = start;
        let mut n = 0u64;
        let m = stride(sub.len);
        let mut slowest = (0u64, 0u64);
        while i < sub.len {
            let vb = ctx.violations.len();
            ctx.pos = i;
            let tc = Instant::now();
            run_case_twice(&mut ctx, sub, case_of(i, sub.len, m));
            let ms = tc.elapsed().as_millis() as u64;
            if ms > slowest.1 {
                slowest = (case_of(i, sub.len, m), ms);
            }
            for v in &ctx.violations[vb..] {
                let mut o = out.lock();
                let _ = writeln!(o, "{}", viol_json(v));
                let _ = o.flush();
            }
            n += 1;
            i += nw;
        }
        sub_evals.insert(sub.name.clone(), (n, ctx.evals - e0, t_sub.elapsed().as_millis() as u64));
        if slowest.1 >= 250 {
            ctx.outcome_n(&format!("slow-case:{}[{}]", sub.name, slowest.0), slowest.1);
        }
        // cumulative snapshot, so that completed subs survive a later crash of this worker
        let mut snap = counters_json(&ctx, &sub_evals);
        snap["t"] = json!("snap");
        let mut o = out.lock();
        let _ = writeln!(o, "{}", snap);
        let _ = o.flush();
    }
    let mut o = out.lock();
    let _ = writeln!(o, "{}", counters_json(&ctx, &sub_evals));
    let _ = o.flush();
    0
}

struct Child {
    resume: Option<(u64, u64)>,
    w: u64,
    is_default: bool,
    flavour: String,
    bin: String,
    proc: std::process::Child,
    reader: Option<std::thread::JoinHandle<String>>,
    slot_path: String,
    last_slot: [u8; 24],
    last_change: Instant,
}

fn spawn_worker(bin: &str, prop: &str, tier: Tier, flavour: &str, is_default: bool, w: u64, nw: u64, resume: Option<(u64, u64)>, slot_dir: &Path) -> Child {
    // the run's own process id is part of the name: two runs of one property at the same time
    // (quick and thorough, say) must not watch each other's workers
    let slot_path = slot_dir.join(format!("{}-{}-{}-{}.slot", prop, flavour, std::process::id(), w)).to_string_lossy().to_string();
    let _ = std::fs::write(&slot_path, [0xffu8; 24]);
    let mut cmd = Command::new(bin);
    cmd.arg(prop).arg(tier.name()).arg("--worker").arg(w.to_string()).arg(nw.to_string()).arg(flavour).arg(if is_default { "1" } else { "0" }).arg(&slot_path);
    if let Some((s, i)) = resume {
        cmd.arg(s.to_string()).arg(i.to_string());
    }
    cmd.env("MCX_DEEP", if deep() { "1" } else { "0" });
    cmd.stdout(Stdio::piped()).stderr(Stdio::null()).stdin(Stdio::null());
    let mut proc = cmd.spawn().expect("spawn worker");
    let mut so = proc.stdout.take().unwrap();
    let reader = std::thread::spawn(move || {
        let mut s = String::new();
        let _ = so.read_to_string(&mut s);
        s
    });
    Child { resume, w, is_default, flavour: flavour.to_string(), bin: bin.to_string(), proc, reader: Some(reader), slot_path, last_slot: [0xff; 24], last_change: Instant::now() }
}

struct Totals {
    evals: u64,
    nontrivial: u64,
    states: u64,
    transitions: u64,
    traces: u64,
    outcomes: BTreeMap<String, u64>,
    samples: Vec<Value>,
    machinery: Vec<String>,
    violations: Vec<Violation>,
    sub_cases: BTreeMap<String, (u64, u64, u64)>,
}

fn absorb(tot: &mut Totals, text: &str) -> bool {
    let mut done = false;
    let mut last: Option<Value> = None;
    for l in text.lines() {
        let Ok(v) = serde_json::from_str::<Value>(l) else { continue };
        match v["t"].as_str() {
            Some("viol") => tot.violations.push(viol_from(&v)),
            Some("snap") => last = Some(v),
            Some("done") => {
                done = true;
                last = Some(v);
            }
            _ => {}
        }
    }
    if let Some(v) = last {
        match v["t"].as_str() {
            Some("done") | Some("snap") => {
                tot.evals += v["evals"].as_u64().unwrap_or(0);
                tot.nontrivial += v["nontrivial"].as_u64().unwrap_or(0);
                tot.states += v["states"].as_u64().unwrap_or(0);
                tot.transitions += v["transitions"].as_u64().unwrap_or(0);
                tot.traces += v["traces"].as_u64().unwrap_or(0);
                if let Some(o) = v["outcomes"].as_object() {
                    for (k, c) in o {
                        *tot.outcomes.entry(k.clone()).or_insert(0) += c.as_u64().unwrap_or(0);
                    }
                }
                if let Some(a) = v["samples"].as_array() {
                    tot.samples.extend(a.iter().cloned());
                }
                if let Some(a) = v["machinery"].as_array() {
                    tot.machinery.extend(a.iter().filter_map(|x| x.as_str().map(|s| s.to_string())));
                }
                if let Some(o) = v["sub_evals"].as_object() {
                    for (k, c) in o {
                        let e = tot.sub_cases.entry(k.clone()).or_insert((0, 0, 0));
                        e.0 += c[0].as_u64().unwrap_or(0);
                        e.1 += c[1].as_u64().unwrap_or(0);
                        e.2 = e.2.max(c[2].as_u64().unwrap_or(0));
                    }
                }
            }
            _ => {}
        }
    }
    done
}

fn signal_name(s: i32) -> String {
    match s {
        6 => "SIGABRT".into(),
        11 => "SIGSEGV".into(),
        7 => "SIGBUS".into(),
        4 => "SIGILL".into(),
        9 => "SIGKILL".into(),
        n => format!("SIG{}", n),
    }
}

fn parse_bins(arg: Option<String>) -> Vec<(String, String)> {
    // "chk=/path,rel=/path"; default: this executable as flavour "chk".
    match arg {
        Some(s) => s
            .split(',')
            .filter_map(|kv| kv.split_once('=').map(|(k, v)| (k.to_string(), v.to_string())))
            .collect(),
        None => vec![("chk".to_string(), std::env::current_exe().unwrap().to_string_lossy().to_string())],
    }
}

/// Entry point of every `gv-*` binary.
pub fn main(build: impl Fn(&str, Tier) -> Option<CheckDef>) -> ! {
    main_promoted(&[], build)
}

/// Like `main`; for the properties listed in `promoted` the command-line tier `quick`
/// runs the `Tier::Thorough` bounds and `thorough` runs them with `deep()` set (the
/// harness adds deeper bounds under `deep()`). Evidence and summary lines report the
/// command-line tier.
pub fn main_promoted(promoted: &[&str], build: impl Fn(&str, Tier) -> Option<CheckDef>) -> ! {
    install_panic_hook();
    let args: Vec<String> = std::env::args().collect();
    if args.len() < 3 {
        eprintln!("usage: {} <PROP> quick|thorough [--bins f=path,...] | <PROP> --replay <file>", args[0]);
        std::process::exit(2);
    }
    let prop = args[1].clone();
    if args[2] == "--replay" {
        std::process::exit(replay_main(&build, &prop, &args[3], args.get(4).map(|s| s.as_str()) == Some("--inproc")));
    }
    let mut tier = match args[2].as_str() {
        "quick" => Tier::Quick,
        "thorough" => Tier::Thorough,
        _ => {
            eprintln!("bad tier");
            std::process::exit(2)
        }
    };
    let cli_tier = tier.name();
    let is_worker = args.get(3).map(|s| s.as_str()) == Some("--worker");
    if is_worker {
        // the parent already mapped the tier; it tells us whether this is a deep run
        DEEP.store(std::env::var("MCX_DEEP").ok().as_deref() == Some("1"), std::sync::atomic::Ordering::Relaxed);
    } else if promoted.contains(&prop.as_str()) {
        DEEP.store(tier == Tier::Thorough, std::sync::atomic::Ordering::Relaxed);
        tier = Tier::Thorough;
    }
    let Some(def) = build(&prop, tier) else {
        eprintln!("this binary does not serve {}", prop);
        std::process::exit(2)
    };
    if is_worker {
        let w: u64 = args[4].parse().unwrap();
        let nw: u64 = args[5].parse().unwrap();
        let flavour = args[6].clone();
        let is_default = args[7] == "1";
        let slot = args[8].clone();
        let resume = if args.len() >= 11 { Some((args[9].parse().unwrap(), args[10].parse().unwrap())) } else { None };
        std::process::exit(worker_main(&def, &prop, tier, &flavour, is_default, w, nw, resume, &slot));
    }
    if args.iter().any(|a| a == "--single") {
        std::process::exit(single_main(&def, &prop, tier));
    }
    let bins = parse_bins(args.iter().position(|a| a == "--bins").and_then(|p| args.get(p + 1).cloned()));
    std::process::exit(parent_main(&def, &prop, tier, cli_tier, &bins));
}

fn parent_main(def: &CheckDef, prop: &str, tier: Tier, cli_tier: &str, bins: &[(String, String)]) -> i32 {
    let t0 = Instant::now();
    let root = verif_root();
    let nw: u64 = std::env::var("VERIF_WORKERS").ok().and_then(|s| s.parse().ok()).unwrap_or(16);
    let slot_dir = root.join("mc").join("target").join("slots");
    let _ = std::fs::create_dir_all(&slot_dir);
    let default_flavour = bins[0].0.clone();
    let mut tot = Totals {
        evals: 0,
        nontrivial: 0,
        states: 0,
        transitions: 0,
        traces: 0,
        outcomes: BTreeMap::new(),
        samples: vec![],
        machinery: vec![],
        violations: vec![],
        sub_cases: BTreeMap::new(),
    };
    let mut flavours_used = vec![];
    let mut known = load_known(&root.join("known_findings.txt"));
    if let Ok(rd) = std::fs::read_dir(root.join("known_findings.d")) {
        let mut ps: Vec<_> = rd.filter_map(|e| e.ok()).map(|e| e.path()).collect();
        ps.sort();
        for p in ps {
            known.extend(load_known(&p));
        }
    }
    // Crashes and hangs that are not recorded findings: after a few of them the verdict is
    // settled (VIOLATION), and every further hanging case would cost a full timeout, so the
    // run stops early (the evidence then says exhaustive: false).
    let mut unknown_crashes = 0u32;
    let mut aborted_early = false;
    'flavours: for (flavour, bin) in bins {
        // Does any sub run under this flavour?
        let any = def.subs.iter().any(|s| if s.flavours.is_empty() { *flavour == default_flavour } else { s.flavours.contains(&flavour.as_str()) });
        if !any {
            continue;
        }
        flavours_used.push(flavour.clone());
        // Under a non-default flavour, subs with empty flavour lists are skipped by
        // telling the worker its flavour; the default flavour runs them.
        let wf = flavour.clone();
        let mut children: Vec<Child> = (0..nw).map(|w| spawn_worker(bin, prop, tier, &wf, *flavour == default_flavour, w, nw, None, &slot_dir)).collect();
        let mut crashes = 0u32;
        while !children.is_empty() {
            std::thread::sleep(Duration::from_millis(20));
            let mut next: Vec<Child> = vec![];
            for mut c in children.drain(..) {
                // hang monitor
                let mut slot = [0u8; 24];
                if let Ok(f) = std::fs::File::open(&c.slot_path) {
                    let _ = f.read_at(&mut slot, 0);
                }
                if slot != c.last_slot {
                    c.last_slot = slot;
                    c.last_change = Instant::now();
                }
                let si = u64::from_le_bytes(slot[..8].try_into().unwrap());
                let timeout = def.subs.get(si as usize).map(|s| s.timeout_s).unwrap_or(120);
                let mut hung = false;
                if c.last_change.elapsed() > Duration::from_secs(timeout) {
                    let _ = c.proc.kill();
                    hung = true;
                }
                match c.proc.try_wait() {
                    Ok(None) if !hung => {
                        next.push(c);
                    }
                    _ => {
                        let status = c.proc.wait().ok();
                        let text = c.reader.take().unwrap().join().unwrap_or_default();
                        let done = absorb(&mut tot, &text);
                        let _ = std::fs::remove_file(&c.slot_path);
                        if done && !hung {
                            continue;
                        }
                        // Crash or hang: attribute to the in-flight case.
                        let pos = u64::from_le_bytes(slot[8..16].try_into().unwrap());
                        if si == u64::MAX || si as usize >= def.subs.len() {
                            tot.machinery.push(format!("worker {} ({}) died before its first case: {:?}", c.w, c.flavour, status));
                            continue;
                        }
                        let sub = &def.subs[si as usize];
                        let idx = case_of(pos, sub.len, stride(sub.len));
                        // cases of this sub that the dead worker had completed before the in-flight one
                        let start_pos = c.resume.filter(|r| r.0 == si).map(|r| r.1).unwrap_or(c.w);
                        let completed = if pos >= start_pos { (pos - start_pos) / nw } else { 0 };
                        tot.sub_cases.entry(sub.name.clone()).or_insert((0, 0, 0)).0 += completed;
                        let kind = if hung {
                            "hang".to_string()
                        } else {
                            match status.and_then(|s| s.signal()) {
                                Some(s) => format!("abort:{}", signal_name(s)),
                                None => format!("abort:exit{}", status.and_then(|s| s.code()).unwrap_or(-1)),
                            }
                        };
                        tot.violations.push(Violation {
                            // identity of a crash: the sub-space without its flavour suffix
                            entry: sub.name.split('@').next().unwrap_or(&sub.name).to_string(),
                            site: "process".into(),
                            kind: kind.clone(),
                            detail: format!("worker process ended ({}) while executing case {} of sub {} (flavour {}); replay re-executes the case in a child process", kind, idx, sub.name, c.flavour),
                            sub: sub.name.clone(),
                            index: idx,
                            extra: None,
                            flavour: c.flavour.clone(),
                        });
                        *tot.outcomes.entry(format!("crash:{}", kind)).or_insert(0) += 1;
                        crashes += 1;
                        {
                            let v = tot.violations.last().unwrap();
                            if !known.iter().any(|k| k.prop == prop && k.entry == v.entry && k.site == v.site && k.kind == v.kind) {
                                unknown_crashes += 1;
                            }
                        }
                        if unknown_crashes >= 3 {
                            aborted_early = true;
                            continue;
                        }
                        if crashes > 200 {
                            tot.machinery.push("more than 200 worker crashes; giving up on respawn".into());
                            continue;
                        }
                        next.push(spawn_worker(&c.bin, prop, tier, &c.flavour, c.is_default, c.w, nw, Some((si, pos + nw)), &slot_dir));
                    }
                }
            }
            children = next;
            if aborted_early {
                for mut c in children.drain(..) {
                    let _ = c.proc.kill();
                    let _ = c.proc.wait();
                    let text = c.reader.take().unwrap().join().unwrap_or_default();
                    let _ = absorb(&mut tot, &text);
                    let _ = std::fs::remove_file(&c.slot_path);
                }
                break 'flavours;
            }
        }
    }

    // Coverage accounting: every case of every sub must have been executed.
    let mut exhaustive = true;
    let mut bounds = serde_json::Map::new();
    for sub in &def.subs {
        let nfl = if sub.flavours.is_empty() { 1 } else { sub.flavours.iter().filter(|f| flavours_used.iter().any(|u| u == *f)).count() as u64 };
        let (cases, evals, ms) = tot.sub_cases.get(&sub.name).cloned().unwrap_or((0, 0, 0));
        let crashed_here = tot.violations.iter().filter(|v| v.site == "process" && v.sub == sub.name).count() as u64;
        if cases + crashed_here != sub.len * nfl {
            exhaustive = false;
        }
        bounds.insert(sub.name.clone(), json!({"cases": sub.len, "flavours": if sub.flavours.is_empty() { vec![default_flavour.clone()] } else { sub.flavours.iter().map(|s| s.to_string()).collect() }, "executed": cases, "evaluations": evals, "slowest_worker_ms": ms, "bound": sub.bounds}));
    }
    if aborted_early {
        exhaustive = false;
        *tot.outcomes.entry("run-stopped-early-after-3-unlisted-crashes-or-hangs".to_string()).or_insert(0) += 1;
    } else if !exhaustive {
        tot.machinery.push("not every case of every sub was executed (coverage accounting mismatch)".into());
    }
    for r in &def.required_outcomes {
        if !aborted_early && tot.outcomes.get(r).cloned().unwrap_or(0) == 0 {
            tot.machinery.push(format!("vacuity guard: outcome class '{}' never observed", r));
        }
    }

    // Classify violations against the committed known-findings list.
    let mut uniq: BTreeMap<String, Violation> = BTreeMap::new();
    for v in tot.violations.drain(..) {
        uniq.entry(v.key()).or_insert(v);
    }
    let mut new_v = 0;
    let mut known_v = 0;
    let _ = std::fs::create_dir_all(root.join("replays"));
    for (key, v) in &uniq {
        let k = known.iter().find(|k| k.prop == prop && k.entry == v.entry && k.site == v.site && k.kind == v.kind);
        if let Some(k) = k {
            known_v += 1;
            let rest = k.line["finding:".len()..].trim();
            let rest = rest.strip_prefix(&format!("property={}", prop)).unwrap_or(rest).trim();
            println!("KNOWN-FINDING: property={} {}", prop, rest);
            continue;
        }
        new_v += 1;
        let path = root.join("replays").join(format!("{}-{:016x}.json", prop, fnv(key)));
        let rj = json!({"property": prop, "tier": tier.name(), "deep": deep(), "flavour": v.flavour, "sub": v.sub, "index": v.index,
            "extra": v.extra, "entry": v.entry, "site": v.site, "kind": v.kind, "detail": v.detail});
        let _ = std::fs::write(&path, serde_json::to_string_pretty(&rj).unwrap());
        println!("VIOLATION property={} replay={}", prop, path.display());
        println!("  {} :: {}", key, v.detail.lines().next().unwrap_or(""));
    }

    // Evidence.
    let wall = t0.elapsed().as_secs_f64();
    let seed: i64 = std::env::var("VERIF_SEED").ok().and_then(|s| s.parse().ok()).unwrap_or(0);
    let mut samples = tot.samples.clone();
    samples.truncate(12);
    if samples.is_empty() {
        samples.push(json!("(no sample rendered)"));
    }
    let mut coverage = json!({
        "evaluations": tot.evals,
        "distinct_nontrivial": tot.nontrivial,
        "rule": def.rule,
        "samples": samples,
        "exhaustive": exhaustive && tot.machinery.is_empty(),
        "bounds": Value::Object(bounds),
        "outcomes": tot.outcomes,
        "flavours": flavours_used,
        "workers": nw,
        "known_findings_matched": known_v,
        "bounds_profile": format!("{}{}", tier.name(), if deep() { "+deep" } else { "" }),
    });
    if def.level == "model_checking" {
        coverage["states"] = json!(tot.states);
        coverage["transitions"] = json!(tot.transitions);
        coverage["traces_validated_against_impl"] = json!(tot.traces);
    }
    let ev = json!({
        "property_id": prop,
        "tier": cli_tier,
        "seed": seed,
        "level": def.level,
        "coverage": coverage,
        "assumptions": def.assumptions,
        "wall_s": wall,
        "violations": new_v,
        "machinery_problems": tot.machinery,
    });
    let _ = std::fs::create_dir_all(root.join("evidence"));
    let evp = root.join("evidence").join(format!("{}.json", prop));
    // written next to the target and renamed into place: a reader (or a concurrent run of the
    // same property) never sees half a file
    let tmp = root.join("evidence").join(format!(".{}.{}.tmp", prop, std::process::id()));
    if let Err(e) = std::fs::write(&tmp, serde_json::to_string_pretty(&ev).unwrap() + "\n").and_then(|_| std::fs::rename(&tmp, &evp)) {
        eprintln!("cannot write evidence: {}", e);
        return 2;
    }
    println!(
        "{} {}: evaluations={} nontrivial={} states={} transitions={} subs={} violations={} known={} wall={:.1}s",
        prop, cli_tier, tot.evals, tot.nontrivial, tot.states, tot.transitions, def.subs.len(), new_v, known_v, wall
    );
    if new_v > 0 {
        return 1;
    }
    if !tot.machinery.is_empty() {
        for m in &tot.machinery {
            println!("MACHINERY: {}", m);
        }
        return 2;
    }
    0
}

/// Run every case of every sub in this process (no workers, no files): used to run a
/// check under an interpreter such as Miri. Prints one summary line.
fn single_main(def: &CheckDef, prop: &str, tier: Tier) -> i32 {
    let mut ctx = Ctx::new(prop, tier, "single");
    ctx.sample_cap = 0;
    for (si, sub) in def.subs.iter().enumerate() {
        ctx.sub = sub.name.clone();
        ctx.sub_idx = si as u64;
        for i in 0..sub.len {
            ctx.index = i;
            (sub.run)(&mut ctx, i);
        }
    }
    for v in &ctx.violations {
        println!("SINGLE-VIOLATION {} :: {}", v.key(), v.detail);
    }
    println!(
        "SINGLE {} {}: evaluations={} states={} transitions={} violations={} machinery={}",
        prop,
        tier.name(),
        ctx.evals,
        ctx.states,
        ctx.transitions,
        ctx.violations.len(),
        ctx.machinery.len()
    );
    if !ctx.violations.is_empty() {
        1
    } else if !ctx.machinery.is_empty() {
        2
    } else {
        0
    }
}

fn replay_main(build: &impl Fn(&str, Tier) -> Option<CheckDef>, prop: &str, file: &str, inproc: bool) -> i32 {
    let Ok(text) = std::fs::read_to_string(file) else {
        eprintln!("cannot read {}", file);
        return 2;
    };
    let Ok(r) = serde_json::from_str::<Value>(&text) else {
        eprintln!("bad replay json");
        return 2;
    };
    let tier = if r["tier"].as_str() == Some("thorough") { Tier::Thorough } else { Tier::Quick };
    DEEP.store(r["deep"].as_bool().unwrap_or(false), std::sync::atomic::Ordering::Relaxed);
    if !inproc {
        // Execute in a child so that aborts and stack overflows are observed.
        let exe = std::env::current_exe().unwrap();
        let st = Command::new(exe).arg(prop).arg("--replay").arg(file).arg("--inproc").spawn().and_then(|mut ch| {
            let t0 = Instant::now();
            loop {
                if let Some(st) = ch.try_wait()? {
                    return Ok(st);
                }
                if t0.elapsed() > Duration::from_secs(180) {
                    let _ = ch.kill();
                    let _ = ch.wait();
                    println!("REPLAY: the case did not finish within 180 s (hang)");
                    println!("VIOLATION property={} replay={}", prop, file);
                    std::process::exit(1);
                }
                std::thread::sleep(Duration::from_millis(50));
            }
        });
        return match st {
            Ok(s) => match (s.code(), s.signal()) {
                (Some(c), _) => c,
                (None, Some(sig)) => {
                    println!("REPLAY: child died with {}", signal_name(sig));
                    println!("VIOLATION property={} replay={}", prop, file);
                    1
                }
                _ => 2,
            },
            Err(_) => 2,
        };
    }
    let Some(def) = build(prop, tier) else { return 2 };
    let subn = r["sub"].as_str().unwrap_or("");
    let Some(sub) = def.subs.iter().find(|s| s.name == subn) else {
        eprintln!("no sub named {}", subn);
        return 2;
    };
    let mut ctx = Ctx::new(prop, tier, r["flavour"].as_str().unwrap_or("chk"));
    ctx.verbose = true;
    ctx.sub = sub.name.clone();
    ctx.index = r["index"].as_u64().unwrap_or(0);
    ctx.extra = r["extra"].as_str().map(|s| s.to_string());
    println!("REPLAY {} sub={} index={} (no explorer, single case)", prop, sub.name, ctx.index);
    (sub.run)(&mut ctx, r["index"].as_u64().unwrap_or(0));
    if ctx.violations.is_empty() {
        println!("REPLAY: case passes on the current tree");
        0
    } else {
        for v in &ctx.violations {
            println!("REPLAY: {} :: {}", v.key(), v.detail);
        }
        println!("VIOLATION property={} replay={}", prop, file);
        1
    }
}
