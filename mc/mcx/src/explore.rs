//! Explicit-state breadth-first exploration in which every transition calls
//! the real implementation. States carry the live implementation object (when
//! clonable) or the action path (re-executed from scratch); de-duplication is
//! by a canonical key supplied by the harness together with an argument that
//! equal keys have equal futures.

use crate::engine::Ctx;
use std::collections::{HashSet, VecDeque};
use std::hash::Hash;

pub struct Stats {
    pub states: u64,
    pub transitions: u64,
    pub max_depth: usize,
    pub closed: bool,
}

/// `step(state, action_index)` returns `Ok(Some(next))`, `Ok(None)` when the
/// action is not enabled, or `Err((site, kind, detail))` on a violation.
/// Exploration stops expanding at `max_depth` (closed == false if the frontier
/// was not empty then).
pub fn bfs<S: Clone, K: Hash + Eq>(
    ctx: &mut Ctx,
    entry: &str,
    init: S,
    n_actions: usize,
    max_depth: usize,
    key: impl Fn(&S) -> K,
    mut step: impl FnMut(&S, usize) -> Result<Option<S>, (String, String, String)>,
    action_name: impl Fn(usize) -> String,
) -> Stats {
    let mut seen: HashSet<K> = HashSet::new();
    let mut q: VecDeque<(S, Vec<u16>)> = VecDeque::new();
    seen.insert(key(&init));
    q.push_back((init, vec![]));
    let mut st = Stats { states: 1, transitions: 0, max_depth: 0, closed: true };
    // Replay of a single path (no exploration).
    if let Some(path) = ctx.extra.clone() {
        let (s0, _) = q.pop_front().unwrap();
        let mut s = s0;
        for tok in path.split(',').filter(|t| !t.is_empty()) {
            let a: usize = tok.parse().unwrap_or(0);
            ctx.log(&format!("  action {} = {}", a, action_name(a)));
            match step(&s, a) {
                Ok(Some(n)) => s = n,
                Ok(None) => {
                    ctx.log("  (not enabled)");
                }
                Err((site, kind, detail)) => {
                    ctx.fail(entry, &site, &kind, detail);
                    break;
                }
            }
        }
        return st;
    }
    let mut beat = 0u64;
    while let Some((s, path)) = q.pop_front() {
        st.max_depth = st.max_depth.max(path.len());
        if path.len() >= max_depth {
            st.closed = false;
            continue;
        }
        for a in 0..n_actions {
            beat += 1;
            if beat % 4096 == 0 {
                ctx.heartbeat();
            }
            match step(&s, a) {
                Ok(None) => {}
                Ok(Some(n)) => {
                    st.transitions += 1;
                    let k = key(&n);
                    if seen.insert(k) {
                        st.states += 1;
                        let mut p = path.clone();
                        p.push(a as u16);
                        q.push_back((n, p));
                    }
                }
                Err((site, kind, detail)) => {
                    st.transitions += 1;
                    let mut p = path.clone();
                    p.push(a as u16);
                    let ps = p.iter().map(|x| x.to_string()).collect::<Vec<_>>().join(",");
                    let names = p.iter().map(|&x| action_name(x as usize)).collect::<Vec<_>>().join(" ; ");
                    ctx.fail_path(entry, &site, &kind, ps, format!("path [{}]: {}", names, detail));
                }
            }
        }
    }
    ctx.states += st.states;
    ctx.transitions += st.transitions;
    ctx.traces += st.transitions;
    ctx.eval(st.transitions);
    st
}
