#!/usr/bin/env python3
"""Generates MANIFEST.json from the table below (kept in one place so the manifest is always valid)."""
import json
BASE = "cd /repo/$(cat /w/out/cargo_root.txt 2>/dev/null || echo .) && cargo nextest run --workspace --no-fail-fast --tool-config-file pb:/w/lib/nextest.toml --profile pb --test-threads 8 --offline  (fallback: cargo test --workspace --no-fail-fast --offline); wrapper: /verif/baseline.sh"
CHECKS = {
 "C09": dict(cat="exploration", sec="4/C09", tech="bounded exhaustive enumeration of byte strings/values against an independent 128-bit reference codec",
   text="Exhaustive over the stated finite spaces: every byte string of length <=3 (quick) / <=4 (thorough, u16 reader) and all boundary 9-12 byte strings for the LEB128 readers, all values below 2^16 / 2^22 plus all power-of-two boundaries for the writers, every size argument 0..=255, every truncation of the marker buffers, in overflow-checked and release builds. A coverage statement, not a sample; right level because the codecs are pure functions of short inputs.",
   note="Trusted: mcx::leb reference codec (unit-tested), Rust from_le/from_be bytes. Over-long but fitting LEB128 encodings may be accepted or rejected. Values beyond the enumerated boundaries rely on the small-scope hypothesis."),
 "C10": dict(cat="model_checking", sec="4/C10", tech="explicit-state BFS to the fixed point over reader-operation histories, every transition executed on the real readers in lock-step with a cursor model",
   text="All histories of 37 reader operations on pools of <=2 (quick, 6-byte buffer) / <=3 (thorough, 8-byte buffer) live readers, closed under BFS (finite window space), for EndianSlice, EndianRcSlice, EndianArcSlice, RelocateReader(identity) over both, and EndianReader over a custom canary-guarded buffer with liveness accounting; after every transition every live reader is observed (length, bytes, zero-copy pointer, offsets, ids, find, strings).",
   note="Trusted: the cursor model in gv/src/bin/c10.rs. Buffers larger than 8 bytes and pools larger than 3 are not explored. Provenance-level UB is outside what pointer-range/canary monitors can see."),
 "C01": dict(cat="fault_enumeration", sec="4/C01", tech="bounded exhaustive fault enumeration: every short byte string, every extreme value of every numeric field of well-formed seeds, every truncation point, every failing reader operation, every answer sequence, driven through every public entry point in crash-isolated workers (opt-level 0 with overflow checks, and release)",
   text="Coverage statement per sub-space (see evidence bounds): all byte strings of length <=2 (<=3 in thorough/release) as each of 21 section kinds, all strings of length 3..4 (..6) over a 12-byte alphabet, all 256 opcodes x 13x13 operand patterns in expressions/line programs/CFI, every numeric field of 30 seeds x 16 extreme values (and nearby pairs), every truncation, the k-th reader operation failing once or persistently for every k, every answer sequence of depth 2 (3) to the expression evaluator, splices, and 16 depth/length stressors up to 2^18 (2^22); oracle = no panic/abort/stack overflow/hang, iterators bounded by 4L+64 calls with errors ignored, documented stop-after-error. Crashes are attributed to the exact case through per-worker slot files.",
   note="Trusted: the harness drivers respect documented API preconditions. Inputs longer than the stressors, more than two simultaneous field mutations or faults, and memory exhaustion are not covered. Three recorded findings are listed in known_findings.txt."),
 "C20": dict(cat="model_checking", sec="4/C20", tech="explicit-state exploration of all histories of reuse actions on the real objects (BFS with Debug-rendering keys to the fixed point, plus exhaustive fixed-length histories), oracle = freshly constructed state",
   text="All histories of length 3 (quick) / 4 (thorough) over 54 unwind actions on one reused UnwindContext (13 FDEs incl. every failure kind, 4 storages) plus BFS to the fixed point over context states; every order of reads into a reused entry buffer incl. injected errors; every sequence of root/child/sibling/abandon on re-rooted EntriesTrees over all ordered trees; clones of 24 iterator types at every position; every resume order of line sequences; every partition of abbreviation offsets x cache strategy. Each step is compared with fresh state.",
   note="Trusted: fresh state as the oracle (results on fresh state are decided by C02-C08). Iterator types that are not Clone are out of the clone clause. Histories longer than the bounds rely on the BFS closure argument (state key = Debug rendering of the whole context)."),
 "C17": dict(cat="exploration", sec="4/C17", tech="bounded exhaustive enumeration of generated tables (hash indexes, name tables, aranges, pub tables, offset tables, section loaders) with every present and absent key probed against a linear scan of the abstract table",
   text="Exhaustive over the stated spaces: every key sequence over all residue classes of both hash functions for 2/4/8 (16, 32 in thorough) slot package indexes incl. chains of every length up to full-minus-one and wrap-around, every section-kind subset for index versions 2 and 5, packages whose found unit must equal the standalone unit byte for byte, .debug_names with up to 4 (5) names over colliding hashes x bucket counts {0,1,2,3,4,7} x parent chains x CU/TU references, case-folding hash on every 1-2 byte ASCII string and every Unicode 14 scalar, aranges/pubnames/str_offsets/addr tables over boundary values, and every SectionId through every loader path.",
   note="Trusted: the abstract table models and encoders in gv/src/bin/index/. The dwp/llvm-dwp/clang corpus comparison in the quantifier is differential testing on real-world input and is not decided here. Tables larger than the bounds rely on the small-scope hypothesis."),
}
PLANNED = ["C01","C02","C03","C04","C05","C06","C07","C08","C11","C12","C13","C14","C15","C16","C17","C18","C19","C20"]
def main():
    checks = []
    for pid, c in sorted(CHECKS.items()):
        checks.append({
            "property_id": pid,
            "quick_cmd": f"./check {pid} quick",
            "thorough_cmd": f"./check {pid} thorough",
            "evidence_file": f"/verif/evidence/{pid}.json",
            "replay_cmd_template": f"./check {pid} --replay {{path}}",
            "engine": "mcx",
            "level_claimed": {"category": c["cat"], "text": c["text"], "design_ref": c["sec"]},
            "level_note": c["note"],
            "technique": c["tech"],
        })
    na = [{"property_id": p, "reason": "check not built yet in this session; design in DESIGN.md section 4 (bounded exhaustive model checking applies)"} for p in PLANNED if p not in CHECKS]
    m = {
        "version": 1,
        "setup_cmd": "./setup.sh",
        "hooks": {"guard": "gimli_rs_gimli_verif", "enable": "none needed: every observation point is public API (Reader/Relocate/storage traits are implementable); checks build /repo unmodified via a path dependency", "baseline_off_cmd": BASE, "source_commits": [], "add_only": True},
        "engines": [{"name": "mcx", "path": "/verif/mc", "serves_properties": sorted(CHECKS.keys()), "kind_free_text": "hand-rolled bounded-exhaustive enumerator + explicit-state BFS explorer (Rust); 16 crash-isolated worker processes; every case/transition executes the real gimli code"}],
        "checks": checks,
        "not_applicable": na,
        "notes": "exit 0 = held on everything explored; 1 = VIOLATION line with replay file; 2 = machinery problem (never a verdict). known_findings.txt lists recorded and fixed defects.",
    }
    json.dump(m, open("/verif/MANIFEST.json", "w"), indent=1)
    print("wrote MANIFEST.json with", len(checks), "checks,", len(na), "not_applicable")
main()
