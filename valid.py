#!/opt/veriftools/pyvenv/bin/python3
"""Validate MANIFEST.json and every evidence file against the schemas."""
import json, sys, glob, jsonschema
ok = True
def v(path, schema):
    global ok
    try:
        jsonschema.validate(json.load(open(path)), json.load(open(schema)))
        print("ok ", path)
    except Exception as e:
        ok = False
        print("BAD", path, str(e).splitlines()[0])
v("/verif/MANIFEST.json", "/root/.vp/MANIFEST.schema.json")
for f in sorted(glob.glob("/verif/evidence/*.json")):
    v(f, "/root/.vp/EVIDENCE.schema.json")
sys.exit(0 if ok else 1)
