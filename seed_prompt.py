#!/usr/bin/env python3
"""Prints the prompt for an independent mutant-seeding sub-agent for one property (only the property text; nothing from /verif)."""
import json, sys
pid = sys.argv[1]
n = sys.argv[2] if len(sys.argv) > 2 else "3"
start = int(sys.argv[3]) if len(sys.argv) > 3 else 1
import glob
prev = []
for f in sorted(glob.glob(f'/verif/seeded/{pid}-*/meta.json')):
    try: prev.append(json.load(open(f)).get('title',''))
    except Exception: pass
excl = ""
if prev:
    excl = "\n\nALREADY TAKEN (other engineers produced these earlier; yours must be DIFFERENT mechanisms, preferably in different functions/files and different clauses of the property):\n" + "\n".join("  - "+t for t in prev if t) + f"\nNumber your changes k = {start}..{start+int(n)-1} (so the output directories are /tmp/seed-out/{pid}/{start}/ ...)."
p = [json.loads(l) for l in open('/verif/properties.jsonl') if json.loads(l)['id'] == pid][0]
print(f"""You are a careful Rust engineer doing mutation seeding for the crate gimli (a DWARF reader/writer). A pinned checkout is at /repo (git repository, branch main). You must NOT edit /repo itself and you must NOT read anything under /verif (it contains an independent verification framework; your work must be independent of it). Everything is offline: always pass --offline to cargo.

THE PROPERTY ({pid}: {p['title']}):
{p['statement']}
Quantified over: {p['quantifier']['text']}

YOUR TASK: produce {n} DIFFERENT changes to gimli's source (each a small, realistic patch such as a maintainer could plausibly make by mistake: cursor/offset logic, a boundary comparison, a forgotten reset, a wrong size-table entry, two sites that each look fine alone, an optimisation that is only wrong for an unusual input) such that each change
  (1) still compiles,
  (2) still passes gimli's ENTIRE existing test suite (you must run it),
  (3) BREAKS the property above, and
  (4) needs something specific to manifest — an unusual input, a boundary value, a multi-step sequence of API calls, a particular configuration (version/format/address size/endianness), a fault at a particular point — NOT something ordinary use or the existing tests would expose at once.
Each change must come with a demonstration: a self-contained Rust integration test file (to be dropped into the crate's `tests/` directory, using only gimli's public API and the crate's existing dev-dependencies) that FAILS with the change applied and PASSES without it. The changes should target different mechanisms / files where possible.

HOW TO WORK:
- Create your own scratch worktree: `git -C /repo worktree add --detach /tmp/seed-{pid} HEAD` and work only there. Use `CARGO_TARGET_DIR=/tmp/seed-{pid}/target`.
- Run the full existing suite in the worktree with: `cd /tmp/seed-{pid} && cargo test --workspace --no-fail-fast --offline 2>&1 | tail -40` (it takes a few minutes; the machine is shared and busy, be patient; do not run more than one cargo command at a time). All tests must pass with your change applied (check the summary lines of every test binary).
- For each change (k numbered as stated at the end of this prompt if a numbering is given there, else k = 1..{n}): start from a clean worktree (`git checkout -- . && git clean -fdq -e target`), apply the change, run the suite, write the demonstration test as `tests/seed_demo.rs`, run it with the change (`cargo test --offline --test seed_demo` must FAIL) and without it (revert only the src change; must PASS). Then save into `/tmp/seed-out/{pid}/<k>/`: `patch.diff` (output of `git diff -- src` with only the source change), `seed_demo.rs` (the demonstration), and `meta.json` with keys: property ("{pid}"), title (one line), what_it_breaks (which clause of the property and why), needs_to_manifest (the specific input / sequence / configuration needed), files_touched, suite_result (the pass/fail counts you observed with the change applied), demo_with_change ("fails: <assertion message>"), demo_without_change ("passes").
- When completely done, remove the worktree and its build output: `git -C /repo worktree remove --force /tmp/seed-{pid}`.

Be rigorous: do not claim a result you did not observe. If a candidate change turns out to fail an existing test or cannot be demonstrated, discard it and find another. Your final message: for each saved change, one paragraph (title, mechanism, what is needed to manifest, suite result, demo result).""" + excl)
